#!/usr/bin/env python3
"""
translate.py — regenerate lean/FlacModel/Gen/*.lean from the CURRENT /repo sources.

Each extractor names the Rust item it reads, fails loudly (recorded as a broken obligation
`translator:<item>`) when the item or its expected shape is gone, and emits plain Lean
definitions.  Files are rewritten only when their content changes.

usage: translate.py [--repo /repo] [--out /verif/lean/FlacModel/Gen] [--report FILE]
"""
import re, sys, os, json, argparse

class ExtractError(Exception):
    pass

def strip_comments(src):
    # remove // comments (not inside strings; the sources have no '//' in string literals
    # on the lines we read) and /* */ blocks
    src = re.sub(r'/\*.*?\*/', '', src, flags=re.S)
    out = []
    for line in src.split('\n'):
        i = line.find('//')
        if i >= 0:
            line = line[:i]
        out.append(line)
    return '\n'.join(out)

def brace_block(src, start):
    """src[start] must be '{'; returns index just after the matching '}'"""
    assert src[start] == '{'
    depth = 0
    i = start
    while i < len(src):
        c = src[i]
        if c == '{':
            depth += 1
        elif c == '}':
            depth -= 1
            if depth == 0:
                return i + 1
        i += 1
    raise ExtractError('unbalanced braces')

def find_block(src, header_re, item):
    m = re.search(header_re, src)
    if not m:
        raise ExtractError(f'{item}: header not found')
    b = src.find('{', m.end() - 1)
    if b < 0:
        raise ExtractError(f'{item}: no body')
    e = brace_block(src, b)
    return src[b:e]

def num(s):
    s = s.replace('_', '')
    if s.startswith('0x') or s.startswith('0X'):
        return int(s, 16)
    if s.startswith('0b'):
        return int(s[2:], 2)
    return int(s)

NUM = r'(?:0x[0-9a-fA-F_]+|0b[01_]+|[0-9][0-9_]*)'

# ---------------------------------------------------------------------------------------------
# a small Rust expression parser (subset) -> Lean expression over Nat with explicit widths
# ---------------------------------------------------------------------------------------------
TOK = re.compile(r'\s*(?:(' + NUM + r')|([A-Za-z_][A-Za-z0-9_]*(?:\.[0-9]+)?)|(>>|<<|==|!=|<=|>=|&&|\|\||[-+*/%^&|()<>\[\]!.,]))')

def tokenize(s):
    pos = 0
    toks = []
    s = s.strip()
    while pos < len(s):
        m = TOK.match(s, pos)
        if not m:
            raise ExtractError(f'cannot tokenize expression at: {s[pos:pos+20]!r}')
        if m.group(1):
            toks.append(('num', num(m.group(1))))
        elif m.group(2):
            toks.append(('id', m.group(2)))
        else:
            toks.append(('op', m.group(3)))
        pos = m.end()
    return toks

WIDTH = {'u8': 8, 'u16': 16, 'u32': 32, 'u64': 64, 'usize': 64}

class UExpr:
    """unsigned-integer expression parser: yields (lean_string, width).  Semantics: values are
    Nat; `<<` truncates to the operand width (Rust discards shifted-out bits, and panics only for
    shift amounts >= width, which the extracted kernels never use with literals >= width);
    `^ & |` are bitwise; `>>` is logical; `as uN` truncates/extends."""
    def __init__(self, toks, env):
        self.t = toks; self.i = 0; self.env = env
    def peek(self):
        return self.t[self.i] if self.i < len(self.t) else (None, None)
    def eat(self, kind=None, val=None):
        k, v = self.peek()
        if (kind and k != kind) or (val is not None and v != val):
            raise ExtractError(f'expression: expected {val or kind}, got {v!r}')
        self.i += 1
        return v
    # precedence (Rust): * / %  >  + -  >  << >>  >  &  >  ^  >  |
    def parse(self):
        e = self.p_or()
        if self.i != len(self.t):
            raise ExtractError(f'expression: trailing tokens {self.t[self.i:]}')
        return e
    def binlevel(self, sub, ops):
        l = sub()
        while self.peek() in [('op', o) for o in ops]:
            o = self.eat()
            r = sub()
            l = self.mk(o, l, r)
        return l
    def p_or(self):  return self.binlevel(self.p_xor, ['|'])
    def p_xor(self): return self.binlevel(self.p_and, ['^'])
    def p_and(self): return self.binlevel(self.p_shift, ['&'])
    def p_shift(self): return self.binlevel(self.p_add, ['<<', '>>'])
    def p_add(self): return self.binlevel(self.p_mul, ['+', '-'])
    def p_mul(self): return self.binlevel(self.p_cast, ['*', '/', '%'])
    def p_cast(self):
        e = self.p_atom()
        while self.peek() == ('id', 'as'):
            self.eat()
            ty = self.eat('id')
            if ty not in WIDTH:
                raise ExtractError(f'expression: unsupported cast to {ty}')
            w = WIDTH[ty]
            s, ow = e
            e = (f'({s} % {2**w})', w) if (ow is None or ow > w) else (s, w)
        return e
    def p_atom(self):
        k, v = self.peek()
        if k == 'num':
            self.eat(); return (str(v), None)
        if k == 'op' and v == '(':
            self.eat(); e = self.p_or(); self.eat('op', ')'); return (f'({e[0]})', e[1])
        if k == 'id':
            self.eat()
            if self.peek() == ('op', '['):
                self.eat(); idx = self.p_or(); self.eat('op', ']')
                if v not in self.env:
                    raise ExtractError(f'expression: unknown table {v}')
                name, w = self.env[v]
                return (f'({name}.getD ({idx[0]}) 0)', w)
            if v not in self.env:
                raise ExtractError(f'expression: unknown identifier {v}')
            return self.env[v]
        raise ExtractError(f'expression: unexpected token {v!r}')
    def mk(self, o, l, r):
        w = l[1] if l[1] is not None else r[1]
        if l[1] is not None and r[1] is not None and l[1] != r[1] and o not in ('<<', '>>'):
            raise ExtractError(f'expression: width mismatch {l} {o} {r}')
        if o in ('<<', '>>'):
            w = l[1]
        if w is None:
            raise ExtractError('expression: untyped operands')
        m = 2 ** w
        if o == '^': return (f'(Nat.xor {l[0]} {r[0]})', w)
        if o == '&': return (f'(Nat.land {l[0]} {r[0]})', w)
        if o == '|': return (f'(Nat.lor {l[0]} {r[0]})', w)
        if o == '<<': return (f'(({l[0]} * 2 ^ {r[0]}) % {m})', w)
        if o == '>>': return (f'({l[0]} / 2 ^ {r[0]})', w)
        raise ExtractError(f'expression: operator {o} not in the unsigned subset')

def uexpr(text, env):
    return UExpr(tokenize(text), env).parse()

# ---------------------------------------------------------------------------------------------
# typed Rust expression subset -> Lean `Res Int` kernels over Model/Machine.lean
# ---------------------------------------------------------------------------------------------
TYPES = {'i8': (True, 8), 'i16': (True, 16), 'i32': (True, 32), 'i64': (True, 64),
         'u8': (False, 8), 'u16': (False, 16), 'u32': (False, 32), 'u64': (False, 64), 'usize': (False, 64)}

KTOK = re.compile(r'\s*(?:(' + NUM + r')|([A-Za-z_][A-Za-z0-9_]*(?:::[A-Za-z_][A-Za-z0-9_]*)*)|(>>|<<|[-+*/%^&|()!.,]))')

def ktokenize(s):
    pos = 0; toks = []; s = s.strip()
    while pos < len(s):
        m = KTOK.match(s, pos)
        if not m:
            raise ExtractError(f'kernel: cannot tokenize at {s[pos:pos+25]!r}')
        if m.group(1): toks.append(('num', num(m.group(1))))
        elif m.group(2): toks.append(('id', m.group(2)))
        else: toks.append(('op', m.group(3)))
        pos = m.end()
    return toks

class Kernel:
    """translate one typed expression.  `env`: variable -> (lean_name, type_name); `generic`: the
    concrete type substituted for a generic parameter `I`."""
    def __init__(self, name, text, env, generic=None):
        self.name = name; self.t = ktokenize(text); self.i = 0; self.env = env
        self.generic = generic; self.binds = []; self.n = 0; self.text = ' '.join(text.split())
    def peek(self): return self.t[self.i] if self.i < len(self.t) else (None, None)
    def eat(self, kind=None, val=None):
        k, v = self.peek()
        if (kind and k != kind) or (val is not None and v != val):
            raise ExtractError(f'kernel {self.name}: expected {val or kind}, got {v!r} in `{self.text}`')
        self.i += 1; return v
    def fresh(self):
        self.n += 1; return f't{self.n}'
    def bind(self, call):
        v = self.fresh(); self.binds.append(f'  let {v} ← {call}'); return v
    def site(self, what): return f'"{self.name}: {what}"'
    def ty(self, t):
        if t == 'I':
            if not self.generic: raise ExtractError(f'kernel {self.name}: generic type without instance')
            t = self.generic
        if t not in TYPES: raise ExtractError(f'kernel {self.name}: unsupported type {t}')
        return t
    # expression levels
    def parse(self):
        e = self.p_or()
        if self.i != len(self.t):
            raise ExtractError(f'kernel {self.name}: trailing tokens in `{self.text}`')
        return e
    def lvl(self, sub, ops):
        l = sub()
        while self.peek()[0] == 'op' and self.peek()[1] in ops:
            o = self.eat(); r = sub(); l = self.binop(o, l, r)
        return l
    def p_or(self): return self.lvl(self.p_xor, ['|'])
    def p_xor(self): return self.lvl(self.p_and, ['^'])
    def p_and(self): return self.lvl(self.p_shift, ['&'])
    def p_shift(self): return self.lvl(self.p_add, ['<<', '>>'])
    def p_add(self): return self.lvl(self.p_mul, ['+', '-'])
    def p_mul(self): return self.lvl(self.p_cast, ['*', '/', '%'])
    def p_cast(self):
        e = self.p_unary()
        while self.peek() == ('id', 'as'):
            self.eat(); t = self.ty(self.eat('id')); e = self.cast(e, t)
        return e
    def cast(self, e, t):
        s, w = TYPES[t]
        a, at = e
        if at is None: return (a, t)
        if at in TYPES and at != '?into':
            ss, sw = TYPES[at]
            # a value of a machine type is always within that type's range: keep that fact local by
            # normalising the operand to its own width first (identity on in-range values)
            if sw < w and not a.startswith('(cast') and not a.startswith('(wrap'):
                a = f'({"castS" if ss else "castU"} {sw} {a})'
        return (f'({"castS" if s else "castU"} {w} {a})', t)
    def p_unary(self):
        k, v = self.peek()
        if k == 'op' and v == '-':
            self.eat(); a, at = self.p_unary()
            if at is None: return (f'(-{a})', None)
            s, w = TYPES[at]
            if not s: raise ExtractError(f'kernel {self.name}: negation of unsigned')
            return (self.bind(f'negS p {w} {self.site("negate")} {a}'), at)
        if k == 'op' and v == '*':
            self.eat(); return self.p_unary()            # dereference
        return self.p_postfix()
    def p_postfix(self):
        e = self.p_atom()
        while self.peek() == ('op', '.'):
            self.eat(); m = self.eat('id'); self.eat('op', '(')
            arg = None
            if self.peek() != ('op', ')'):
                arg = self.p_or()
            self.eat('op', ')')
            a, at = e
            if m in ('wrapping_add', 'wrapping_sub', 'wrapping_mul'):
                if arg is None: raise ExtractError(f'kernel {self.name}: .{m}() needs an argument')
                b, bt = arg
                if bt is not None and at is not None and bt != at:
                    raise ExtractError(f'kernel {self.name}: type mismatch in .{m}()')
                t = at if at is not None else bt
                sg, w = TYPES[t]
                opc = {'wrapping_add': '+', 'wrapping_sub': '-', 'wrapping_mul': '*'}[m]
                e = (f'(wrap{"S" if sg else "U"} {w} ({a} {opc} {b}))', t)
                continue
            if m == 'wrapping_abs':
                sg, w = TYPES[at]
                e = (f'(wrapS {w} (if {a} < 0 then -{a} else {a}))', at)
                continue
            if arg is not None:
                raise ExtractError(f'kernel {self.name}: method .{m}(arg) not supported')
            if m == 'abs':
                s, w = TYPES[at]; e = (self.bind(f'absS p {w} {self.site(".abs()")} {a}'), at)
            elif m == 'unsigned_abs':
                s, w = TYPES[at]; e = (f'(if {a} < 0 then -{a} else {a})', 'u' + at[1:])
            elif m == 'into':
                e = (a, '?into')
            else:
                raise ExtractError(f'kernel {self.name}: method .{m}() not supported')
        return e
    def p_atom(self):
        k, v = self.peek()
        if k == 'num':
            self.eat(); return (str(v), None)
        if k == 'op' and v == '(':
            self.eat(); e = self.p_or(); self.eat('op', ')'); return e
        if k == 'id':
            self.eat()
            if '::' in v:
                t, f = v.rsplit('::', 1)
                if f in ('ONE',): return ('1', self.ty(t))
                if f in ('ZERO',): return ('0', self.ty(t))
                if f in ('from', 'from_u32', 'from_i64'):
                    self.eat('op', '('); e = self.p_or(); self.eat('op', ')')
                    return self.cast(e, self.ty(t))
                raise ExtractError(f'kernel {self.name}: path {v} not supported')
            if v not in self.env:
                raise ExtractError(f'kernel {self.name}: unknown identifier {v} in `{self.text}`')
            n, t = self.env[v]
            return (n, self.ty(t))
        raise ExtractError(f'kernel {self.name}: unexpected token {v!r} in `{self.text}`')
    def binop(self, o, l, r):
        (a, at), (b, bt) = l, r
        if at == '?into': at = bt
        if bt == '?into': bt = at
        t = at if at is not None else bt
        if t is None: raise ExtractError(f'kernel {self.name}: untyped operands of {o}')
        if o in ('<<', '>>'):
            t = at
            if t is None: raise ExtractError(f'kernel {self.name}: untyped shift operand')
        elif at is not None and bt is not None and at != bt:
            raise ExtractError(f'kernel {self.name}: type mismatch {at} {o} {bt} in `{self.text}`')
        s, w = TYPES[t]
        X = 'S' if s else 'U'
        if o == '+': return (self.bind(f'add{X} p {w} {self.site(a_(l)+" + "+a_(r))} {a} {b}'), t)
        if o == '-': return (self.bind(f'sub{X} p {w} {self.site(a_(l)+" - "+a_(r))} {a} {b}'), t)
        if o == '*': return (self.bind(f'mul{X} p {w} {self.site(a_(l)+" * "+a_(r))} {a} {b}'), t)
        if o == '%':
            if bt is not None and not b.lstrip('(-').isdigit(): raise ExtractError(f'kernel {self.name}: % by non-literal')
            return ((f'(remS {a} {b})' if s else f'({a} % {b})'), t)
        if o == '>>':
            if bt is None: return (f'({a} / 2 ^ {b})', t)
            return (self.bind(f'shrX p {w} {self.site(">>")} {a} {b}'), t)
        if o == '<<':
            if bt is None: return (f'(wrap{X} {w} ({a} * 2 ^ {b}))', t)
            return (self.bind(f'shl{X} p {w} {self.site("<<")} {a} {b}'), t)
        if o in ('|', '&', '^'):
            if s: raise ExtractError(f'kernel {self.name}: bit operator on signed')
            f = {'|': 'Nat.lor', '&': 'Nat.land', '^': 'Nat.xor'}[o]
            return (f'(Int.ofNat ({f} ({a}).toNat ({b}).toNat))', t)
        raise ExtractError(f'kernel {self.name}: operator {o} not supported')

def a_(e):
    return 'x'

def kernel_def(name, text, params, env, result, generic=None, doc=None):
    k = Kernel(name, text, env, generic)
    val, vt = k.parse()
    if vt is not None and vt != '?into' and result and k.ty(result) != vt:
        raise ExtractError(f'kernel {name}: result type {vt}, expected {result}')
    lines = [f'/-- `{doc or k.text}` -/',
             f'def {name} (p : Profile) {" ".join("(" + x + " : Int)" for x in params)} : Res Int := do']
    lines += k.binds
    lines.append(f'  pure {val}')
    return '\n'.join(lines) + '\n'

def fn_body(src, name, item=None):
    m = re.search(r'\bfn\s+' + name + r'\b', src)
    if not m:
        raise ExtractError(f'{item or name}: fn not found')
    b = src.find('{', m.end())
    # skip generic where-clauses: the body is the first `{` at depth 0 after the signature `)`
    depth = 0; i = m.end()
    while i < len(src):
        c = src[i]
        if c in '(<[': depth += 1
        elif c in ')>]':
            if not (c == '>' and src[i-1] == '-'): depth -= 1
        elif c == '{' and depth <= 0:
            b = i; break
        i += 1
    return src[b:brace_block(src, b)]

def grab(body, pattern, item):
    m = re.search(pattern, body, flags=re.S)
    if not m:
        raise ExtractError(f'{item}: expected shape not found: /{pattern}/')
    return ' '.join(m.group(1).split())

def gen_kernels_dec(repo):
    dec = strip_comments(open(os.path.join(repo, 'src/decode.rs')).read())
    out = ['/- GENERATED by tools/translate.py from src/decode.rs — do not edit -/',
           'import FlacModel.Model.Machine', 'namespace Flac.Gen', 'open Flac', '']
    rs = fn_body(dec, 'read_subframes')
    i32 = lambda *names: {n: (n.replace('_', ''), 'i32') for n in names}
    # --- decoder: channel reconstruction (i32 paths)
    e = grab(rs, r'\*side\s*=\s*(\*left\s*-\s*\*side|left\.wrapping_sub\(\*side\))\s*;', 'read_subframes: left/side')
    out.append(kernel_def('decLeftSide', e, ['left', 'side'], i32('left', 'side'), 'i32'))
    m_ = re.search(r'\*side\s*\+=\s*(\*right)\s*;', rs)
    if m_:
        out.append(kernel_def('decSideRight', '*side + *right', ['side', 'right'], i32('side', 'right'), 'i32', doc='*side += *right'))
    else:
        e = grab(rs, r'\*side\s*=\s*(side\.wrapping_add\(\*right\))\s*;', 'read_subframes: side/right')
        out.append(kernel_def('decSideRight', e, ['side', 'right'], i32('side', 'right'), 'i32'))
    e = grab(rs, r'let\s+sum\s*=\s*(\*mid\s*\*\s*2\s*\+\s*side\.abs\(\)\s*%\s*2|mid\.wrapping_mul\(2\)\.wrapping_add\(side\.wrapping_abs\(\)\s*%\s*2\))\s*;', 'read_subframes: mid/side sum')
    out.append(kernel_def('decMidSum', e, ['mid', 'side'], i32('mid', 'side'), 'i32'))
    e = grab(rs, r'\*mid\s*=\s*(\(sum\s*\+\s*\*side\)\s*>>\s*1|sum\.wrapping_add\(\*side\)\s*>>\s*1)\s*;', 'read_subframes: mid/side left')
    out.append(kernel_def('decMidLeft', e, ['sum', 'side'], i32('sum', 'side'), 'i32'))
    e = grab(rs, r'\*side\s*=\s*(\(sum\s*-\s*\*side\)\s*>>\s*1|sum\.wrapping_sub\(\*side\)\s*>>\s*1)\s*;', 'read_subframes: mid/side right')
    out.append(kernel_def('decMidRight', e, ['sum', 'side'], i32('sum', 'side'), 'i32'))
    # --- decoder: the 33-bit side paths (i64 arithmetic, results narrowed with `as i32`)
    w = {'left': ('left', 'i32'), 'right': ('right', 'i32'), 'mid': ('mid', 'i32'), 'side_i64': ('side', 'i64'), 'side_64': ('side', 'i64'), 'sum': ('sum', 'i64')}
    e = grab(rs, r'\*side\s*=\s*(\(\*left as i64\s*-\s*side_i64\) as i32|\(\*left as i64\)\.wrapping_sub\(side_i64\) as i32)\s*;', 'read_subframes: wide left/side')
    out.append(kernel_def('decLeftSideWide', e, ['left', 'side'], w, 'i32'))
    e = grab(rs, r'\*side\s*=\s*(\(side_64\s*\+\s*\*right as i64\) as i32|side_64\.wrapping_add\(\*right as i64\) as i32)\s*;', 'read_subframes: wide side/right')
    out.append(kernel_def('decSideRightWide', e, ['side', 'right'], w, 'i32'))
    e = grab(rs, r'let\s+sum\s*=\s*(\*mid as i64\s*\*\s*2\s*\+\s*\(side_i64\.abs\(\)\s*%\s*2\)|\(\*mid as i64\s*\*\s*2\)\.wrapping_add\(side_i64\.wrapping_abs\(\)\s*%\s*2\))\s*;', 'read_subframes: wide mid/side sum')
    out.append(kernel_def('decMidSumWide', e, ['mid', 'side'], w, 'i64'))
    e = grab(rs, r'\*mid\s*=\s*(\(\(sum\s*\+\s*side_i64\)\s*>>\s*1\) as i32|\(sum\.wrapping_add\(side_i64\)\s*>>\s*1\) as i32)\s*;', 'read_subframes: wide mid')
    out.append(kernel_def('decMidLeftWide', e, ['sum', 'side'], w, 'i32'))
    e = grab(rs, r'\*side\s*=\s*(\(\(sum\s*-\s*side_i64\)\s*>>\s*1\) as i32|\(sum\.wrapping_sub\(side_i64\)\s*>>\s*1\) as i32)\s*;', 'read_subframes: wide side')
    out.append(kernel_def('decMidRightWide', e, ['sum', 'side'], w, 'i32'))
    # --- decoder: Rice un-folding
    rb = fn_body(dec, 'read_block')
    rbn = ' '.join(rb.split())
    rule = 'rchunks'
    if 'residuals.rchunks_mut(block_size / partition_count).rev()' in rbn:
        zero = '.panic "read_block: rchunks_mut chunk size must be non-zero"'
    elif ('let partition_len = match block_size / partition_count { 0 => return Err(Error::InvalidPartitionOrder), len => len, };' in rbn
          and 'residuals.rchunks_mut(partition_len).rev()' in rbn):
        zero = '.err "InvalidPartitionOrder"'
    elif ('let partition_len = match block_size / partition_count { len if block_size % partition_count == 0 && len > predictor_order => len, '
          '_ => return Err(Error::InvalidPartitionOrder), };' in rbn and 'residuals.rchunks_mut(partition_len).rev()' in rbn):
        zero = '.err "InvalidPartitionOrder"'
        rule = 'rfc'
    else:
        raise ExtractError('read_block: partition slicing `residuals.rchunks_mut(block_size / partition_count)` changed shape')
    out.append(f'/-- does `read_block` (decode.rs) require `2^po ∣ block size` and `block size / 2^po > predictor order`? -/\ndef decLayoutRfc : Bool := {"true" if rule == "rfc" else "false"}\n')
    stn = ' '.join(strip_comments(open(os.path.join(repo, 'src/stream.rs')).read()).split())
    if ('(block_size / partition_count) .checked_sub(if p == 0 { predictor_order } else { 0 }) .ok_or(Error::InvalidPartitionOrder)?' in stn):
        srule = 'false'
    elif ('let partition_len = match block_size / partition_count { len if block_size % partition_count == 0 && len > predictor_order => len, '
          '_ => return Err(Error::InvalidPartitionOrder), };' in stn and 'partition_len - if p == 0 { predictor_order } else { 0 }' in stn):
        srule = 'true'
    else:
        raise ExtractError('stream.rs read_partitions: partition length computation changed shape')
    out.append(f'/-- does `read_partitions` (stream.rs) enforce the same rule? -/\ndef structLayoutRfc : Bool := {srule}\n')
    if 'if partitions.len() != partition_count { return Err(Error::InvalidPartitionOrder); }' not in rbn:
        raise ExtractError('read_block: the test `partitions.len() != partition_count` is gone')
    out.append(f'/-- what `read_block` does when `block_size / partition_count` is 0 -/\ndef decZeroPartitionLen : Fail := {zero}\n')
    g_ = re.search(r'if\s+msb\s*>\s*\(u32::MAX\s*>>\s*u32::from\(rice\)\)\s*\{\s*return\s+Err\(Error::ResidualOverflow', rb)
    out.append('/-- guard in front of the Rice join: `msb > (u32::MAX >> rice)` ⇒ `ResidualOverflow`' + ('' if g_ else ' (ABSENT in the source: never rejects)') + ' -/\n'
               f'def decRiceOverflow (msb rice : Nat) : Bool := {"decide (msb > 4294967295 / 2 ^ rice)" if g_ else "false"}\n')
    e = grab(rb, r'let\s+unsigned\s*=\s*(\(msb\s*<<\s*u32::from\(rice\)\)\s*\|\s*lsb)\s*;', 'read_block: unsigned')
    out.append(kernel_def('decRiceJoin', e, ['msb', 'rice', 'lsb'], {'msb': ('msb', 'u32'), 'lsb': ('lsb', 'u32'), 'rice': ('rice', 'u32')}, 'u32'))
    e_neg = grab(rb, r'if\s*\(unsigned\s*&\s*1\)\s*==\s*1\s*\{\s*(-\(I::from_u32\(unsigned\s*>>\s*1\)\)\s*-\s*I::ONE)\s*\}', 'read_block: odd branch')
    e_pos = grab(rb, r'\}\s*else\s*\{\s*(I::from_u32\(unsigned\s*>>\s*1\))\s*\}', 'read_block: even branch')
    for gname, g in (('32', 'i32'), ('64', 'i64')):
        out.append(kernel_def('decRiceOdd' + gname, e_neg, ['unsigned'], {'unsigned': ('unsigned', 'u32')}, g, generic=g))
        out.append(kernel_def('decRiceEven' + gname, e_pos, ['unsigned'], {'unsigned': ('unsigned', 'u32')}, g, generic=g))
    # --- decoder: prediction step (shape-checked, emitted structurally)
    pb = ' '.join(fn_body(dec, 'predict').split())
    pbn = pb.replace(' ', '')
    sum_trap = 'predicted.iter().rev().zip(coefficients).map(|(x,y)|(*x).into()*y).sum::<i64>()>>qlp_shift,'
    sum_wrap = 'predicted.iter().rev().zip(coefficients).fold(0i64,|sum,(x,y)|{sum.wrapping_add(Into::<i64>::into(*x).wrapping_mul(*y))})>>qlp_shift,'
    wrapping = None; dotwrap = None
    for sw, st in ((False, sum_trap), (True, sum_wrap)):
        if ('residuals[0]+=I::from_i64(' + st + ');') in pbn: wrapping, dotwrap = False, sw
        if ('residuals[0]=residuals[0].wrapping_add(I::from_i64(' + st + '));') in pbn: wrapping, dotwrap = True, sw
    if wrapping is None:
        raise ExtractError('predict: body no longer has the shape `residuals[0] (+= | = ….wrapping_add)(I::from_i64(Σ x·c >> qlp_shift))`')
    out.append('/-- the i64 accumulation of `predict`: `exact` = Σ xᵢ·cᵢ over the integers; '
               + ('wrapping_mul/wrapping_add keep its low 64 bits' if dotwrap else '`.sum::<i64>()` of plain products (traps on i64 overflow with overflow checks)') + ' -/\n'
               'def decDot (p : Profile) (exact : Int) : Res Int := '
               + ('pure (wrapS 64 exact)' if dotwrap else 'resS p 64 "predict: Σ x·c in i64" exact') + '\n')
    if 'for split in coefficients.len()..channel.len()' not in pb or 'channel.split_at_mut(split)' not in pb:
        raise ExtractError('predict: loop shape changed')
    if wrapping:
        tb = fn_body(dec, 'wrapping_add', 'SignedInteger::wrapping_add')
        if not re.search(r'i32::wrapping_add\(self,\s*rhs\)', tb):
            raise ExtractError('SignedInteger for i32 :: wrapping_add is not `i32::wrapping_add(self, rhs)`')
    add32 = ('  pure (wrapS 32 (residual + castS 32 t1))\n' if wrapping else
             '  let t2 ← addS p 32 "predict: residuals[0] += prediction" residual (castS 32 t1)\n  pure t2\n')
    add64 = ('  pure (wrapS 64 (residual + t1))\n' if wrapping else
             '  let t2 ← addS p 64 "predict: residuals[0] += prediction" residual t1\n  pure t2\n')
    doc = 'residuals[0] = residuals[0].wrapping_add(I::from_i64(Σ x·c >> qlp_shift))' if wrapping else 'residuals[0] += I::from_i64(Σ x·c >> qlp_shift)'
    out.append(f'/-- `{doc}` for `I = i32` (`from_i64` = `as i32`) -/\n'
               'def decPredictStep32 (p : Profile) (residual sum shift : Int) : Res Int := do\n'
               '  let t1 ← shrX p 64 "predict: >> qlp_shift" sum shift\n' + add32)
    out.append('/-- the same for `I = i64` (`from_i64` is the identity) -/\n'
               'def decPredictStep64 (p : Profile) (residual sum shift : Int) : Res Int := do\n'
               '  let t1 ← shrX p 64 "predict: >> qlp_shift" sum shift\n' + add64)
    sb = fn_body(dec, 'read_subframe')
    grab(sb, r'(channel\.iter_mut\(\)\.for_each\(\|i\|\s*\*i\s*<<=\s*header\.wasted_bps\))', 'read_subframe: wasted-bit shift')
    out.append('/-- `*i <<= header.wasted_bps` -/\n'
               'def decWastedShl32 (p : Profile) (i wasted : Int) : Res Int := shlS p 32 "read_subframe: <<= wasted_bps" i wasted\n'
               'def decWastedShl64 (p : Profile) (i wasted : Int) : Res Int := shlS p 64 "read_subframe: <<= wasted_bps" i wasted\n')
    # --- end-of-stream decision of read_frame when the total is unknown
    rf = ' '.join(fn_body(dec, 'read_frame').split())
    if ('Err(Error::Io(err)) if err.kind() == std::io::ErrorKind::UnexpectedEof && header_reader.count == 0 => { return Ok(None); }' in rf
            and 'let mut header_reader = crate::Counter::new(crc16_reader.by_ref());' in rf):
        strict = 'true'
    elif 'Err(Error::Io(err)) if err.kind() == std::io::ErrorKind::UnexpectedEof => { return Ok(None); }' in rf:
        strict = 'false'
    else:
        raise ExtractError('read_frame: the unknown-total end-of-stream arm changed shape')
    out.append('/-- with an unknown total, is an EOF INSIDE a frame header an error (true) or a clean end of stream (false)? '
               'an EOF before the first header byte always ends the stream -/\n'
               f'def decHeaderEofStrict : Bool := {strict}\n')
    if 'Some(0) => return Ok(None),' not in rf or '(u64::from(block_size) == remaining || block_size > 14)' not in rf:
        raise ExtractError('read_frame: known-total accounting / short-block rule changed shape')
    over = 'if u64::from(block_size) > remaining { return Err(Error::TooManySamples); }' in rf
    if '.map(|total| total.get() - self.current_sample)' not in rf:
        raise ExtractError('read_frame: `remaining = total - current_sample` changed shape')
    out.append('/-- is a frame longer than the samples remaining (by STREAMINFO) rejected with TooManySamples? -/\n'
               f'def decOvershootIsError : Bool := {"true" if over else "false"}\n')
    out.append('end Flac.Gen')
    return '\n'.join(out) + '\n'

def gen_kernels_enc(repo):
    enc = strip_comments(open(os.path.join(repo, 'src/encode.rs')).read())
    out = ['/- GENERATED by tools/translate.py from src/encode.rs — do not edit -/',
           'import FlacModel.Model.Machine', 'namespace Flac.Gen', 'open Flac', '']
    # --- encoder
    cb = fn_body(enc, 'correlate_channels')
    e = grab(cb, r'\.map\(\|\(l,\s*r\)\|\s*(\(l\s*\+\s*r\)\s*>>\s*1)\)', 'correlate_channels: mid')
    out.append(kernel_def('encMid', e, ['l', 'r'], {'l': ('l', 'i32'), 'r': ('r', 'i32')}, 'i32'))
    e = grab(cb, r'\.map\(\|\(l,\s*r\)\|\s*(l\s*-\s*r)\)', 'correlate_channels: side')
    out.append(kernel_def('encSide', e, ['l', 'r'], {'l': ('l', 'i32'), 'r': ('r', 'i32')}, 'i32'))
    eb = fn_body(enc, 'encode_subframe')
    e = grab(eb, r'channel\.iter\(\)\.map\(\|sample\|\s*(sample\s*>>\s*wasted_bps)\)', 'encode_subframe: wasted shift')
    out.append(kernel_def('encWastedShr', e, ['sample', 'wasted_bps'], {'sample': ('sample', 'i32'), 'wasted_bps': ('wastedbps', 'u32')}, 'i32').replace('(sample : Int) (wasted_bps : Int)', '(sample : Int) (wastedbps : Int)'))
    wb = fn_body(enc, 'write_residuals')
    e = grab(wb, r'mask\(if s\.is_negative\(\)\s*\{\s*(\(\(-\*s as u32\s*-\s*1\)\s*<<\s*1\)\s*\+\s*1)\s*\}', 'write_residuals: fold negative')
    out.append(kernel_def('encRiceFoldNeg', e, ['s'], {'s': ('s', 'i32')}, 'u32'))
    e = grab(wb, r'\}\s*else\s*\{\s*(\(\*s as u32\)\s*<<\s*1)\s*\}', 'write_residuals: fold non-negative')
    out.append(kernel_def('encRiceFoldPos', e, ['s'], {'s': ('s', 'i32')}, 'u32'))
    rb2 = ' '.join(fn_body(enc, 'encode_residuals').split())
    dotsum = ('(previous .iter() .rev() .zip(&parameters.coefficients) .map(|(x, y)| *x as i64 * *y as i64) .sum::<i64>() >> parameters.shift)')
    full = 'i32::try_from( i64::from(current[0]) - ' + dotsum + ', ) .map_err(|_| ResidualOverflow)?'
    truncated = 'current[0] .checked_sub( ' + dotsum + ' as i32, ) .ok_or(ResidualOverflow)?'
    body = rb2.replace(' ', '')
    if full.replace(' ', '') in body:
        out.append('/-- `i32::try_from(i64::from(current[0]) - (Σ x·c >> parameters.shift))` — `none` = ResidualOverflow\n'
                   '    (the i64 difference itself cannot overflow: |Σ x·c| < 2^53 for 32 taps of 32-bit samples and 16-bit coefficients) -/\n'
                   'def encResidualStep (sample sum shift : Int) : Option Int := checkedSubS 32 sample (sum / 2 ^ shift.toNat)\n')
    elif truncated.replace(' ', '') in body:
        out.append('/-- `current[0].checked_sub((Σ x·c >> parameters.shift) as i32)` — `none` = ResidualOverflow -/\n'
                   'def encResidualStep (sample sum shift : Int) : Option Int := checkedSubS 32 sample (castS 32 (sum / 2 ^ shift.toNat))\n')
    else:
        raise ExtractError('encode_residuals: body has neither known shape (full 64-bit difference / prediction truncated to i32)')
    fb = ' '.join(fn_body(enc, 'encode_fixed_subframe').split())
    if 'for (n, p) in r.iter().zip(*prev_order) { match n.checked_sub(*p)' not in fb:
        raise ExtractError('encode_fixed_subframe: difference loop changed shape')
    out.append('/-- `n.checked_sub(*p)` of the FIXED difference loop -/\n'
               'def encFixedDiff (n prev : Int) : Option Int := checkedSubS 32 n prev\n')
    # --- the partition acceptance rule of best_partitions
    m = re.search(r'\.collect::<Option<ArrayVec<_,\s*MAX_PARTITIONS>>>\(\)\s*\.filter\(\|p\|\s*(.*?)\)\?\s*;', wb, flags=re.S)
    if not m:
        raise ExtractError('best_partitions: acceptance filter not found')
    rule = ' '.join(m.group(1).split())
    if rule == 'p.len() == partition_count':
        lean_rule = 'count == partitionCount'
    elif rule == '!p.is_empty() && p.len().is_power_of_two()':
        lean_rule = 'count != 0 && (2 ^ (Nat.log2 count) == count)'
    else:
        raise ExtractError(f'best_partitions: acceptance rule `{rule}` not in the translatable subset')
    out.append(f'/-- `best_partitions` keeps a candidate iff `{rule}` (count = number of `rchunks` pieces) -/\n'
               f'def encPartitionAccept (count partitionCount : Nat) : Bool := {lean_rule}\n')
    if 'residuals .rchunks(block_size / partition_count) .rev()'.replace(' ', '') not in wb.replace(' ', '').replace('\n', ''):
        raise ExtractError('best_partitions: slicing `residuals.rchunks(block_size / partition_count).rev()` changed')
    if 'writer.write::<4, u32>(partitions.len().ilog2())?' not in ' '.join(wb.split()):
        raise ExtractError('write_partitions: written partition order is no longer `partitions.len().ilog2()`')
    m = re.search(r'const\s+MAX_PARTITIONS\s*:\s*usize\s*=\s*(' + NUM + r')\s*;', wb)
    if not m:
        raise ExtractError('write_residuals: MAX_PARTITIONS not found')
    out.append(f'def encMaxPartitions : Nat := {num(m.group(1))}\n')
    capped = 'min(MAX_PARTITIONS.ilog2())' in wb.replace(' ', '').replace('\n', '')
    out.append(f'/-- candidate orders are capped at `ilog2(MAX_PARTITIONS)` -/\ndef encPartitionOrderCapped : Bool := {"true" if capped else "false"}\n')
    # --- the verbatim fallback comparison of encode_subframe (C19)
    ebn = ' '.join(eb.split())
    if 'let verbatim_len = channel.len() as u32 * u32::from(bits_per_sample);' not in ebn:
        raise ExtractError('encode_subframe: `verbatim_len = channel.len() as u32 * u32::from(bits_per_sample)` not found')
    m = re.search(r'if best\.written\(\) (<|<=) verbatim_len \{ Ok\(best\) \} else \{ verbatim_output\.clear\(\); encode_verbatim_subframe\(', ebn)
    if not m:
        raise ExtractError('encode_subframe: fallback `if best.written() < verbatim_len { Ok(best) } else { verbatim }` changed shape')
    out.append('/-- `verbatim_len = channel.len() as u32 * u32::from(bits_per_sample)` -/\ndef encVerbatimLen (n bps : Nat) : Nat := n * bps\n')
    out.append(f'/-- `if best.written() {m.group(1)} verbatim_len {{ Ok(best) }} else {{ verbatim }}` -/\n'
               f'def encKeepBest (written verbatimLen : Nat) : Bool := decide (written {m.group(1)} verbatimLen)\n')
    m = re.search(r'\(Ok\(\(\)\), Ok\(\(\)\)\) => \[fixed_output, lpc_output\] \.into_iter\(\) \.(min_by_key|max_by_key)\(\|c\| c\.written\(\)\)', ebn)
    if not m:
        raise ExtractError('encode_subframe: candidate selection `[fixed_output, lpc_output].min_by_key(written)` changed shape')
    out.append(f'/-- both candidates succeeded: `[fixed_output, lpc_output].into_iter().{m.group(1)}(|c| c.written())` -/\n'
               f'def encPickCandidate (fixedBits lpcBits : Nat) : Nat := '
               + ('if lpcBits < fixedBits then lpcBits else fixedBits' if m.group(1) == 'min_by_key' else 'if fixedBits ≤ lpcBits then lpcBits else fixedBits') + '\n')
    out.append('end Flac.Gen')
    return '\n'.join(out) + '\n'

# ---------------------------------------------------------------------------------------------
# extractors
# ---------------------------------------------------------------------------------------------
def gen_crc(repo):
    src = strip_comments(open(os.path.join(repo, 'src/crc.rs')).read())
    out = ['/- GENERATED by tools/translate.py from src/crc.rs — do not edit -/',
           'namespace Flac.Gen', '']
    for name, ty, w in (('Crc8', 'u8', 8), ('Crc16', 'u16', 16)):
        item = f'impl Checksum for {name}'
        body = find_block(src, r'impl\s+Checksum\s+for\s+' + name + r'\b', item)
        upd = find_block(body, r'fn\s+update\s*\(\s*self\s*,\s*byte\s*:\s*u8\s*\)\s*->\s*Self', item + '::update')
        m = re.search(r'static\s+SUMTABLE\s*:\s*&\[\s*' + ty + r'\s*;\s*256\s*\]\s*=\s*&\[(.*?)\]\s*;', upd, flags=re.S)
        if not m:
            raise ExtractError(f'{item}::update: SUMTABLE [{ty}; 256] not found')
        vals = [num(x) for x in re.findall(NUM, m.group(1))]
        if len(vals) != 256:
            raise ExtractError(f'{item}::update: SUMTABLE has {len(vals)} entries')
        rest = upd[m.end():]
        m2 = re.search(r'Self\s*\((.*)\)\s*}\s*$', rest, flags=re.S)
        if not m2:
            raise ExtractError(f'{item}::update: result expression `Self(...)` not found')
        lname = name.lower()
        env = {'self.0': ('c', w), 'byte': ('byte', 8), 'SUMTABLE': (f'{lname}Table', w)}
        e, ew = uexpr(m2.group(1), env)
        if ew != w:
            raise ExtractError(f'{item}::update: result width {ew} != {w}')
        out.append(f'def {lname}Table : List Nat := [')
        for i in range(0, 256, 8):
            out.append('  ' + ', '.join(str(v) for v in vals[i:i+8]) + (',' if i < 248 else ''))
        out.append(']')
        out.append('')
        out.append(f'/-- `{name}::update`: `{ " ".join(m2.group(1).split()) }` -/')
        out.append(f'def {lname}Update (c byte : Nat) : Nat := {e}')
        out.append('')
        v = find_block(body, r'fn\s+valid\s*\(\s*self\s*\)\s*->\s*bool', item + '::valid')
        if not re.search(r'self\.0\s*==\s*0', v):
            raise ExtractError(f'{item}::valid: expected `self.0 == 0`')
        out.append(f'def {lname}Valid (c : Nat) : Bool := c == 0')
        out.append('')
    out.append('end Flac.Gen')
    return '\n'.join(out) + '\n'

def arms(body, item):
    """list of (pattern, rhs) for `pat => rhs,` arms of the first match in body"""
    m = re.search(r'\bmatch\b[^{]*{', body)
    if not m:
        raise ExtractError(f'{item}: no match expression')
    b = m.end() - 1
    e = brace_block(body, b)
    inner = body[b+1:e-1]
    res = []
    # split at top-level commas
    depth = 0; cur = ''
    for ch in inner:
        if ch in '({[': depth += 1
        if ch in ')}]': depth -= 1
        if ch == ',' and depth == 0:
            res.append(cur); cur = ''
        else:
            cur += ch
    if cur.strip():
        res.append(cur)
    out = []
    for a in res:
        if '=>' not in a:
            continue
        p, r = a.split('=>', 1)
        out.append((' '.join(p.split()), ' '.join(r.split())))
    return out

def lean_pairs(name, pairs, doc=None):
    s = ''
    if doc:
        s += f'/-- {doc} -/\n'
    s += f'def {name} : List (Nat × Nat) := [' + ', '.join(f'({a}, {b})' for a, b in pairs) + ']\n'
    return s

def lean_list(name, xs, doc=None):
    s = ''
    if doc:
        s += f'/-- {doc} -/\n'
    return s + f'def {name} : List Nat := [' + ', '.join(str(x) for x in xs) + ']\n'

def gen_tables(repo):
    src = strip_comments(open(os.path.join(repo, 'src/stream.rs')).read())
    out = ['/- GENERATED by tools/translate.py from src/stream.rs — do not edit -/',
           'namespace Flac.Gen', '']

    def variant_values(impl_re, item):
        """`impl From<X<..>> for uN`: variant -> value for the fixed variants"""
        body = find_block(src, impl_re, item)
        vals = {}
        for p, r in arms(body, item):
            for v in re.findall(r'::(\w+)\b(?!\()', p):
                if re.fullmatch(NUM, r):
                    vals[v] = num(r)
        return vals

    def read_codes(impl_re, item, bits):
        """code -> ('ok', variant, has_payload) | ('err', class)"""
        body = find_block(src, impl_re, item)
        mm = re.search(r'match\s+r\.read::<\s*(\d+)\s*,\s*u8\s*>\(\)\?', body)
        if not mm or int(mm.group(1)) != bits:
            raise ExtractError(f'{item}: expected a {bits}-bit field read')
        codes = {}
        for p, r in arms(body, item):
            rng = re.fullmatch(r'(?:\w+\s*@\s*)?(' + NUM + r')(?:\s*\.\.=\s*(' + NUM + r'))?', p)
            if not rng:
                continue
            lo = num(rng.group(1)); hi = num(rng.group(2)) if rng.group(2) else lo
            for c in range(lo, hi + 1):
                if c >= 2 ** bits:
                    continue
                mo = re.match(r'Ok\(\s*Self::(\w+)\s*(\(.*)?\)$', r)
                me = re.match(r'Err\(\s*Error::(\w+)\s*\)$', r)
                if mo:
                    codes[c] = ('ok', mo.group(1), r)
                elif me:
                    codes[c] = ('err', me.group(1))
                else:
                    raise ExtractError(f'{item}: arm `{p} => {r}` not understood')
        if sorted(codes) != list(range(2 ** bits)):
            raise ExtractError(f'{item}: arms do not cover all {2**bits} codes')
        return codes

    def write_codes(impl_re, item, bits):
        body = find_block(src, impl_re, item)
        if not re.search(r'w\.write::<\s*' + str(bits) + r'\s*,\s*u8\s*>', body):
            raise ExtractError(f'{item}: expected a {bits}-bit field write')
        codes = {}
        for p, r in arms(body, item):
            mv = re.search(r'Self::(\w+(?:\(Independent::\w+\))?)', p)
            if mv and re.fullmatch(NUM, r):
                codes[mv.group(1)] = num(r)
        return codes

    # ---- block size
    bs_read = read_codes(r'impl\s+FromBitStream\s+for\s+BlockSize<\(\)>', 'BlockSize<()>::from_reader', 4)
    bs_val = variant_values(r'impl\s+From<BlockSize<u16>>\s+for\s+u16', 'From<BlockSize<u16>> for u16')
    bs_write = write_codes(r'impl<B>\s+ToBitStream\s+for\s+BlockSize<B>', 'BlockSize::to_writer', 4)
    fixed = []; u8c = []; u16c = []; inval = []
    for c in range(16):
        e = bs_read[c]
        if e[0] == 'err':
            inval.append(c)
        elif e[1] == 'Uncommon8':
            u8c.append(c)
        elif e[1] == 'Uncommon16':
            u16c.append(c)
        else:
            if e[1] not in bs_val:
                raise ExtractError(f'BlockSize: no value for variant {e[1]}')
            fixed.append((c, bs_val[e[1]]))
    out.append(lean_pairs('blockSizeCodeFixed', fixed, 'block-size code ↦ samples (read arm ∘ `From<BlockSize<u16>> for u16`)'))
    out.append(lean_list('blockSizeCodeU8', u8c, 'codes followed by an 8-bit (size−1) field'))
    out.append(lean_list('blockSizeCodeU16', u16c, 'codes followed by a 16-bit (size−1) field'))
    out.append(lean_list('blockSizeCodeInvalid', inval))
    # TryFrom<u16>: value -> variant -> written code
    body = find_block(src, r'impl\s+TryFrom<u16>\s+for\s+BlockSize<u16>', 'TryFrom<u16> for BlockSize<u16>')
    tf = []; u8bound = None; zero_err = False; default16 = False
    for p, r in arms(body, 'TryFrom<u16> for BlockSize<u16>'):
        if re.fullmatch(NUM, p):
            mo = re.match(r'Ok\(Self::(\w+)\)', r)
            if mo:
                tf.append((num(p), bs_write[mo.group(1)]))
            elif num(p) == 0 and r.startswith('Err'):
                zero_err = True
        else:
            mg = re.fullmatch(r'size if size <= (' + NUM + r')', p)
            if mg and 'Uncommon8' in r:
                u8bound = num(mg.group(1))
            elif p == 'size' and 'Uncommon16' in r:
                default16 = True
    if u8bound is None or not zero_err or not default16:
        raise ExtractError('TryFrom<u16> for BlockSize<u16>: expected `0 => Err`, `size if size <= N => Uncommon8`, `size => Uncommon16`')
    out.append(lean_pairs('blockSizeWriteFixed', tf, 'samples ↦ written code for the table sizes (`TryFrom<u16>` ∘ `to_writer`)'))
    out.append(f'def blockSizeU8Bound : Nat := {u8bound}\n')
    out.append(f'def blockSizeWriteU8 : Nat := {bs_write["Uncommon8"]}\n')
    out.append(f'def blockSizeWriteU16 : Nat := {bs_write["Uncommon16"]}\n')

    # ---- sample rate
    sr_read = read_codes(r'impl\s+FromBitStreamUsing\s+for\s+SampleRate<\(\)>', 'SampleRate<()>::from_reader', 4)
    sr_val = variant_values(r'impl\s+From<SampleRate<u32>>\s+for\s+u32', 'From<SampleRate<u32>> for u32')
    sr_write = write_codes(r'impl<R>\s+ToBitStream\s+for\s+SampleRate<R>', 'SampleRate::to_writer', 4)
    fixed = []; special = {}
    inval = []
    for c in range(16):
        e = sr_read[c]
        if e[0] == 'err':
            inval.append(c)
        elif e[1] in ('Streaminfo', 'KHz', 'Hz', 'DHz'):
            special.setdefault(e[1], []).append(c)
        else:
            fixed.append((c, sr_val[e[1]]))
    out.append(lean_pairs('sampleRateCodeFixed', fixed, 'sample-rate code ↦ Hz'))
    for k in ('Streaminfo', 'KHz', 'Hz', 'DHz'):
        out.append(lean_list('sampleRateCode' + k, special.get(k, [])))
    out.append(lean_list('sampleRateCodeInvalid', inval))
    # the payload reads: KHz = 8 bits * 1000, Hz = 16 bits, DHz = 16 bits * 10
    body = find_block(src, r'impl\s+FromBitStreamUsing\s+for\s+SampleRate<u32>', 'SampleRate<u32>::from_reader')
    pay = {}
    for p, r in arms(body, 'SampleRate<u32>::from_reader'):
        mk = re.search(r'SampleRate::(KHz|Hz|DHz)\(\(\)\)', p)
        if mk:
            mr = re.search(r'r\.read::<\s*(\d+)\s*,\s*\w+\s*>\(\)\?\s*(?:\*\s*(' + NUM + r'))?', r)
            if not mr:
                raise ExtractError(f'SampleRate<u32>::from_reader: arm {p} => {r}')
            pay[mk.group(1)] = (int(mr.group(1)), num(mr.group(2)) if mr.group(2) else 1)
    if sorted(pay) != ['DHz', 'Hz', 'KHz']:
        raise ExtractError('SampleRate<u32>::from_reader: KHz/Hz/DHz payload arms not found')
    for k in ('KHz', 'Hz', 'DHz'):
        out.append(f'def sampleRate{k}Bits : Nat := {pay[k][0]}\ndef sampleRate{k}Mul : Nat := {pay[k][1]}\n')
    body = find_block(src, r'impl\s+TryFrom<u32>\s+for\s+SampleRate<u32>', 'TryFrom<u32> for SampleRate<u32>')
    tf = []
    guards = []
    for p, r in arms(body, 'TryFrom<u32> for SampleRate<u32>'):
        if re.fullmatch(NUM, p):
            mo = re.match(r'Ok\(Self::(\w+)\)', r)
            tf.append((num(p), sr_write[mo.group(1)]))
        else:
            guards.append((p, r))
    expect = [
        (r'rate if \(rate % 1000\) == 0 && \(rate / 1000\) < u8::MAX as u32', 'KHz'),
        (r'rate if \(rate % 10\) == 0 && \(rate / 10\) < u16::MAX as u32', 'DHz'),
        (r'rate if rate < u16::MAX as u32', 'Hz'),
        (r'rate if rate < 1 << 20', 'Streaminfo'),
    ]
    if len(guards) < 4 or any(not re.fullmatch(e, g[0]) or v not in g[1] for (e, v), g in zip(expect, guards)):
        raise ExtractError('TryFrom<u32> for SampleRate<u32>: guard arms changed shape')
    out.append(lean_pairs('sampleRateWriteFixed', tf, 'Hz ↦ written code for the table rates'))
    for k in ('Streaminfo', 'KHz', 'Hz', 'DHz'):
        out.append(f'def sampleRateWrite{k} : Nat := {sr_write[k]}\n')

    # ---- channel assignment
    ca_body = find_block(src, r'impl\s+FromBitStream\s+for\s+ChannelAssignment', 'ChannelAssignment::from_reader')
    indep = {'Mono': 1, 'Stereo': 2}
    ib = find_block(src, r'pub\s+enum\s+Independent', 'enum Independent')
    for mm in re.finditer(r'(\w+)\s*=\s*(\d+)', ib):
        indep[mm.group(1)] = int(mm.group(2))
    ind = []; ls = []; sr_ = []; ms = []; inval = []
    for p, r in arms(ca_body, 'ChannelAssignment::from_reader'):
        rng = re.fullmatch(r'(' + NUM + r')(?:\s*\.\.=\s*(' + NUM + r'))?', p)
        if not rng:
            continue
        lo = num(rng.group(1)); hi = num(rng.group(2)) if rng.group(2) else lo
        for c in range(lo, hi + 1):
            mi = re.match(r'Ok\(Self::Independent\(Independent::(\w+)\)\)', r)
            if mi: ind.append((c, indep[mi.group(1)]))
            elif 'LeftSide' in r: ls.append(c)
            elif 'SideRight' in r: sr_.append(c)
            elif 'MidSide' in r: ms.append(c)
            elif r.startswith('Err'): inval.append(c)
    if sorted([c for c, _ in ind] + ls + sr_ + ms + inval) != list(range(16)):
        raise ExtractError('ChannelAssignment::from_reader: arms do not cover 16 codes')
    out.append(lean_pairs('chanCodeIndependent', ind, 'channel code ↦ independent channel count'))
    out.append(lean_list('chanCodeLeftSide', ls)); out.append(lean_list('chanCodeSideRight', sr_))
    out.append(lean_list('chanCodeMidSide', ms)); out.append(lean_list('chanCodeInvalid', inval))
    cw = write_codes(r'impl\s+ToBitStream\s+for\s+ChannelAssignment', 'ChannelAssignment::to_writer', 4)
    wind = []
    for k, v in cw.items():
        mi = re.match(r'Independent\(Independent::(\w+)\)', k)
        if mi: wind.append((indep[mi.group(1)], v))
    out.append(lean_pairs('chanWriteIndependent', sorted(wind), 'independent channel count ↦ written code'))
    out.append(f'def chanWriteLeftSide : Nat := {cw["LeftSide"]}\ndef chanWriteSideRight : Nat := {cw["SideRight"]}\ndef chanWriteMidSide : Nat := {cw["MidSide"]}\n')

    # ---- bits per sample
    bp_read = read_codes(r'impl\s+FromBitStreamUsing\s+for\s+BitsPerSample', 'BitsPerSample::from_reader', 3)
    bp_val = variant_values(r'impl\s+From<BitsPerSample>\s+for\s+u32', 'From<BitsPerSample> for u32')
    bp_write = write_codes(r'impl\s+ToBitStream\s+for\s+BitsPerSample', 'BitsPerSample::to_writer', 3)
    fixed = []; si = []; inval = []
    for c in range(8):
        e = bp_read[c]
        if e[0] == 'err': inval.append(c)
        elif e[1] == 'Streaminfo': si.append(c)
        else: fixed.append((c, bp_val[e[1]]))
    out.append(lean_pairs('bpsCodeFixed', fixed, 'bits-per-sample code ↦ bits'))
    out.append(lean_list('bpsCodeStreaminfo', si)); out.append(lean_list('bpsCodeInvalid', inval))
    out.append(lean_pairs('bpsWriteFixed', sorted((bp_val[k], v) for k, v in bp_write.items() if k in bp_val), 'bits ↦ written code'))
    out.append(f'def bpsWriteStreaminfo : Nat := {bp_write["Streaminfo"]}\n')

    # ---- subframe header type
    body = find_block(src, r'impl\s+FromBitStream\s+for\s+SubframeHeaderType', 'SubframeHeaderType::from_reader')
    sub = {}
    for p, r in arms(body, 'SubframeHeaderType::from_reader'):
        rng = re.fullmatch(r'(?:\w+\s*@\s*)?(' + NUM + r')(?:\s*\.\.=\s*(' + NUM + r'))?', p)
        if not rng:
            continue
        lo = num(rng.group(1)); hi = num(rng.group(2)) if rng.group(2) else lo
        if 'Constant' in r: sub['constant'] = (lo, hi, 0)
        elif 'Verbatim' in r: sub['verbatim'] = (lo, hi, 0)
        elif 'Fixed' in r:
            mo = re.search(r'order:\s*v\s*-\s*(' + NUM + r')', r)
            sub['fixed'] = (lo, hi, num(mo.group(1)))
        elif 'Lpc' in r:
            mo = re.search(r'NonZero::new\(\s*v\s*-\s*(' + NUM + r')\s*\)', r)
            sub['lpc'] = (lo, hi, num(mo.group(1)))
    if sorted(sub) != ['constant', 'fixed', 'lpc', 'verbatim']:
        raise ExtractError('SubframeHeaderType::from_reader: arms not found')
    for k in ('constant', 'verbatim'):
        out.append(f'def subType{k.capitalize()} : Nat := {sub[k][0]}\n')
    out.append(f'def subTypeFixedLo : Nat := {sub["fixed"][0]}\ndef subTypeFixedHi : Nat := {sub["fixed"][1]}\ndef subTypeFixedBase : Nat := {sub["fixed"][2]}\n')
    out.append(f'def subTypeLpcLo : Nat := {sub["lpc"][0]}\ndef subTypeLpcHi : Nat := {sub["lpc"][1]}\ndef subTypeLpcBase : Nat := {sub["lpc"][2]}\n')
    m = re.search(r'FIXED_COEFFS\s*:\s*\[&\[i64\];\s*5\]\s*=\s*\[(.*?)\];', src, flags=re.S)
    if not m:
        raise ExtractError('SubframeHeaderType::FIXED_COEFFS not found')
    rows = re.findall(r'&\[([^\]]*)\]', m.group(1))
    if len(rows) != 5:
        raise ExtractError('FIXED_COEFFS: expected 5 rows')
    out.append('def fixedCoeffs : List (List Int) := [' + ', '.join('[' + ', '.join(x.strip() for x in r.split(',') if x.strip()) + ']' for r in rows) + ']\n')
    m = re.search(r'const\s+SYNC_CODE\s*:\s*u32\s*=\s*(' + NUM + r')\s*;', src)
    if not m: raise ExtractError('FrameHeader::SYNC_CODE not found')
    out.append(f'def syncCode15 : Nat := {num(m.group(1))}\n')
    m = re.search(r'const\s+MAX_FRAME_NUMBER\s*:\s*u64\s*=\s*\(1\s*<<\s*(\d+)\)\s*-\s*1\s*;', src)
    if not m: raise ExtractError('FrameNumber::MAX_FRAME_NUMBER not found')
    out.append(f'def maxFrameNumber : Nat := 2 ^ {m.group(1)} - 1\n')
    out.append('end Flac.Gen')
    return '\n'.join(out) + '\n'

def gen_encconst(repo):
    src = strip_comments(open(os.path.join(repo, 'src/encode.rs')).read())
    n = ' '.join(src.split())
    out = ['/- GENERATED by tools/translate.py from src/encode.rs — do not edit -/', 'namespace Flac.Gen', '']
    def need(pat, what):
        m = re.search(pat, n)
        if not m:
            raise ExtractError(f'{what}: expected shape not found')
        return m
    m = need(r'pub fn block_size\(self, block_size: u16\) -> Result<Self, OptionsError> \{ match block_size \{ 0\.\.(\d+) => Err\(OptionsError::InvalidBlockSize\), \1\.\. => Ok', 'Options::block_size')
    out.append(f'/-- `Options::block_size`: sizes below this are refused -/\ndef optMinBlockSize : Nat := {m.group(1)}\n')
    m = need(r'\.filter\(\|o\| \*o <= NonZero::new\((\d+)\)\.unwrap\(\)\) \.ok_or\(OptionsError::InvalidLpcOrder\)', 'Options::max_lpc_order')
    out.append(f'/-- `Options::max_lpc_order`: orders 1..=this are accepted (and `None`) -/\ndef optMaxLpcOrder : Nat := {m.group(1)}\n')
    m = need(r'match max_partition_order \{ 0\.\.=(\d+) => Ok\(Self', 'Options::max_partition_order')
    out.append(f'def optMaxPartitionOrder : Nat := {m.group(1)}\n')
    m = need(r'sample_rate: \(0\.\.(\d+)\) \.contains\(&sample_rate\) \.then_some\(sample_rate\) \.ok_or\(Error::InvalidSampleRate\)\?', 'Encoder::new sample rate')
    out.append(f'/-- `Encoder::new`: rates below this are accepted -/\ndef encRateLimit : Nat := {m.group(1)}\n')
    m = need(r'channels: \((\d+)\.\.=(\d+)\) \.contains\(&channels\)', 'Encoder::new channels')
    out.append(f'def encMinChannels : Nat := {m.group(1)}\ndef encMaxChannels : Nat := {m.group(2)}\n')
    m = need(r'const MAX_SAMPLES: u64 = ([0-9_]+);', 'Encoder::MAX_SAMPLES')
    out.append(f'def encMaxSamples : Nat := {num(m.group(1))}\n')
    need(r'total_samples @ Some\(samples\) => match samples\.get\(\) \{ 0\.\.Self::MAX_SAMPLES => total_samples, _ => return Err\(Error::ExcessiveTotalSamples\), \}', 'Encoder::new total')
    need(r'if let Some\(total_samples\) = self\.blocks\.streaminfo\(\)\.total_samples && self\.samples_written > total_samples\.get\(\) \{ return Err\(Error::ExcessiveTotalSamples\); \}', 'Encoder::encode over-fill check')
    need(r'Some\(expected\) => \{ if expected\.get\(\) != self\.samples_written \{ return Err\(Error::SampleCountMismatch\); \} \}', 'Encoder::finalize under-fill check')
    need(r'\*expected = Some\(NonZero::new\(self\.samples_written\)\.ok_or\(Error::NoSamples\)\?\)', 'Encoder::finalize recorded count')
    m = need(r'const MAX_LPC_COEFFS: usize = (\d+);', 'MAX_LPC_COEFFS')
    out.append(f'def encMaxLpcCoeffs : Nat := {m.group(1)}\n')
    m = need(r'debug_assert!\(usize::from\(max_lpc_order\.get\(\)\) (<|<=) MAX_LPC_COEFFS\);', 'autocorrelate debug assertion')
    out.append(f'/-- `autocorrelate`: `debug_assert!(max_lpc_order {m.group(1)} MAX_LPC_COEFFS)` -/\n'
               f'def encAutocorrelateAssert (order : Nat) : Bool := decide (order {m.group(1)} encMaxLpcCoeffs)\n')
    zero_guard = 'if rhs == N::default() { return None; }' in n
    need(r'fn exact_div<N>\(n: N, rhs: N\) -> Option<N>', 'exact_div')
    out.append(f'/-- does `exact_div` refuse a zero divisor (instead of dividing by it)? -/\ndef encExactDivGuardsZero : Bool := {"true" if zero_guard else "false"}\n')
    out.append('end Flac.Gen')
    return '\n'.join(out) + '\n'

def gen_resid(repo):
    """facts about `write_residuals` that the constant-block clause of C19 rests on"""
    n = ' '.join(strip_comments(open(os.path.join(repo, 'src/encode.rs')).read()).split())
    out = ['/- GENERATED by tools/translate.py from src/encode.rs (write_residuals / encode_subframe) — do not edit -/', 'namespace Flac.Gen', '']
    def need(pat, what):
        m = re.search(pat, n)
        if not m:
            raise ExtractError(f'{what}: expected shape not found')
        return m
    zero_const = bool(re.search(r'if partition_sum > 0 \{ let rice = if partition_sum > partition_samples\.into\(\) \{', n)) and \
        bool(re.search(r'\} else \{ Some\(Partition \{ header: ResidualPartitionHeader::Constant, residuals: partition, \}\) \} \} \}', n))
    out.append('/-- `Partition::new`: a partition whose residuals are all zero (absolute sum 0) gets the zero-width escape header, nothing else does -/\n'
               f'def encZeroPartitionIsConstant : Bool := {"true" if zero_const else "false"}\n')
    all0 = bool(re.search(r'if all_0 \{ constant_output\.clear\(\); encode_constant_subframe\(constant_output, channel\[0\], bits_per_sample, 0\)\?; return Ok\(constant_output\); \}', n))
    out.append('/-- `encode_subframe`: an all-zero channel is written as a CONSTANT subframe before any search -/\n'
               f'def encAllZeroIsConstantSubframe : Bool := {"true" if all0 else "false"}\n')
    m = need(r'fn write_partitions<const RICE_MAX: u32, W: BitWrite>\( writer: &mut W, partitions: ArrayVec<Partition<\'_, RICE_MAX>, MAX_PARTITIONS>, \) -> Result<\(\), Error> \{ writer\.write::<4, u32>\(partitions\.len\(\)\.ilog2\(\)\)\?;', 'write_partitions order field')
    out.append('end Flac.Gen')
    return '\n'.join(out) + '\n'

def gen_crcio(repo):
    """which part of an offered buffer `CrcWriter::write` / `CrcReader::read` fold into the checksum (crc.rs)"""
    n = ' '.join(strip_comments(open(os.path.join(repo, 'src/crc.rs')).read()).split())
    out = ['/- GENERATED by tools/translate.py from src/crc.rs (CrcWriter::write, CrcReader::read) — do not edit -/', 'namespace Flac.Gen', '']
    def folded(kind, call, what):
        m = re.search(r'fn ' + kind + r'\(&mut self, buf: &(?:mut )?\[u8\]\) -> std::io::Result<usize> \{ self\.' + call + r'\(buf\)\.inspect\(\|(\w+)\| \{ '
                      r'self\.checksum = (.+?) \.iter\(\) \.copied\(\) \.fold\(self\.checksum, \|c, b\| c\.update\(b\)\); \}\) \}', n)
        if not m:
            raise ExtractError(f'{what}: expected `self.{call}(buf).inspect(|amt| {{ self.checksum = <slice>.iter().copied().fold(self.checksum, |c, b| c.update(b)); }})`')
        v, sl = m.group(1), m.group(2).strip()
        if v != '_' and sl in (f'buf[0..*{v}]', f'buf[..*{v}]', f'&buf[0..*{v}]', f'&buf[..*{v}]'):
            return 'accepted'
        if sl in ('buf', '&buf', 'buf[..]', '&buf[..]'):
            return 'offered'
        raise ExtractError(f'{what}: the folded slice `{sl}` is neither the accepted prefix nor the whole buffer')
    w = folded('write', r'writer\.write', 'CrcWriter::write')
    r = folded('read', r'reader\.read', 'CrcReader::read')
    out.append('/-- `CrcWriter::write`: how many of the `offered` bytes go into the checksum when the wrapped writer accepted `accepted` of them -/\n'
               f'def crcWriterFolded (offered accepted : Nat) : Nat := {w}\n')
    out.append('/-- `CrcReader::read`: how many bytes of the `offered` buffer go into the checksum when the wrapped reader delivered `accepted` -/\n'
               f'def crcReaderFolded (offered accepted : Nat) : Nat := {r}\n')
    need = lambda pat, what: re.search(pat, n) or (_ for _ in ()).throw(ExtractError(f'{what}: expected shape not found'))
    need(r'pub fn into_checksum\(self\) -> C \{ self\.checksum \}', 'CrcWriter::into_checksum')
    need(r'fn flush\(&mut self\) -> std::io::Result<\(\)> \{ self\.writer\.flush\(\) \}', 'CrcWriter::flush')
    out.append('end Flac.Gen')
    return '\n'.join(out) + '\n'

def gen_byteorder(repo):
    """byteorder.rs: the 24-bit conversions and the direction of bytes_to_le"""
    n = ' '.join(strip_comments(open(os.path.join(repo, 'src/byteorder.rs')).read()).split())
    out = ['/- GENERATED by tools/translate.py from src/byteorder.rs — do not edit -/', 'namespace Flac.Gen', '']
    def impl(name):
        m = re.search(r'impl Endianness for ' + name + r' \{(.*?)\} (?:/// Big-endian|#\[allow\(unused\)\]|#\[derive)', n + ' #[derive')
        if not m:
            raise ExtractError(f'impl Endianness for {name}: not found')
        return m.group(1)
    le, be = impl('LittleEndian'), impl('BigEndian')
    def num(t):
        t = t.strip()
        if re.fullmatch(r'0x[0-9A-Fa-f]+', t):
            return int(t, 16)
        if re.fullmatch(r'\d+', t):
            return int(t)
        m = re.fullmatch(r'\(?-1 << (\d+)\)?', t)
        if m:
            return -(1 << int(m.group(1)))
        raise ExtractError(f'byteorder.rs: constant `{t}` not understood')
    to_u, of_u = [], []
    for nm, body, emit, order in (('LittleEndian', le, ['(unsigned & 0xFF) as u8', '((unsigned & 0xFF00) >> 8) as u8', '(unsigned >> 16) as u8'], 'bytes[2] as u32) << 16) | ((bytes[1] as u32) << 8) | bytes[0] as u32'),
                                   ('BigEndian', be, ['(unsigned >> 16) as u8', '((unsigned & 0xFF00) >> 8) as u8', '(unsigned & 0xFF) as u8'], 'bytes[0] as u32) << 16) | ((bytes[1] as u32) << 8) | bytes[2] as u32')):
        m = re.search(r'fn i24_to_bytes\(sample: i32\) -> \[u8; 3\] \{ let unsigned: u32 = if sample >= 0 \{ sample as u32 \} else \{ (\S+) \| \(\(sample - \((.+?)\)\) as u32\) \}; \[ (.+?), (.+?), (.+?), \] \}', body)
        if not m:
            raise ExtractError(f'{nm}::i24_to_bytes: expected `if sample >= 0 {{ sample as u32 }} else {{ BIT | ((sample - (BIAS)) as u32) }}` and three bytes')
        if [m.group(3), m.group(4), m.group(5)] != emit:
            raise ExtractError(f'{nm}::i24_to_bytes: bytes are not emitted in {nm} order')
        to_u.append((num(m.group(1)), num(m.group(2))))
        m = re.search(r'fn bytes_to_i24\(bytes: \[u8; 3\]\) -> i32 \{ let unsigned = \(\((.+?); if unsigned & (\S+) == 0 \{ unsigned as i32 \} else \{ \(unsigned & (\S+)\) as i32 \+ \((.+?)\) \} \}', body)
        if not m:
            raise ExtractError(f'{nm}::bytes_to_i24: expected `if unsigned & BIT == 0 {{ unsigned as i32 }} else {{ (unsigned & MASK) as i32 + (BIAS) }}`')
        if m.group(1) != order:
            raise ExtractError(f'{nm}::bytes_to_i24: bytes are not assembled in {nm} order')
        of_u.append((num(m.group(2)), num(m.group(3)), num(m.group(4))))
        for w, t in (('8', 'i8'), ('16', 'i16'), ('32', 'i32')):
            suf = 'le' if nm == 'LittleEndian' else 'be'
            arg = 'sample'
            if not re.search(r'fn i' + w + r'_to_bytes\(sample: ' + t + r'\) -> \[u8; \d\] \{ ' + arg + r'\.to_' + suf + r'_bytes\(\) \}', body) or \
               not re.search(r'fn bytes_to_i' + w + r'\(bytes: \[u8; \d\]\) -> ' + t + r' \{ ' + t + r'::from_' + suf + r'_bytes\(bytes\) \}', body):
                raise ExtractError(f'{nm}: the {w}-bit conversions are not std to_{suf}_bytes / from_{suf}_bytes')
    if to_u[0] != to_u[1] or of_u[0] != of_u[1]:
        raise ExtractError('byteorder.rs: the two byte orders use different 24-bit constants')
    bit, bias = to_u[0]
    out.append('/-- `i24_to_bytes` (both byte orders): the 32-bit unsigned value whose low three bytes are emitted -/\n'
               f'def i24ToUnsigned (x : Int) : Nat := if x ≥ 0 then (x % 4294967296).toNat else Nat.lor {bit} (((x - ({lean_int(bias)})) % 4294967296).toNat)\n')
    bit2, mask, bias2 = of_u[0]
    out.append('/-- `bytes_to_i24` (both byte orders): the sample for the unsigned value assembled from the three bytes -/\n'
               f'def i24OfUnsigned (u : Nat) : Int := if Nat.land u {bit2} == 0 then (u : Int) else ((Nat.land u {mask} : Nat) : Int) + ({lean_int(bias2)})\n')
    rev = 'for chunk in buf.chunks_exact_mut(bytes_per_sample) { chunk.reverse(); }'
    def to_le(body, nm):
        m = re.search(r'fn bytes_to_le\((_?)buf: &mut \[u8\], _?bytes_per_sample: usize\) \{(.*?)\}(?= fn|\s*$)', body)
        if not m:
            raise ExtractError(f'{nm}::bytes_to_le: not found')
        b = m.group(2).strip()
        if b == rev:
            return 'rev'
        if b == '' or m.group(1) == '_':
            return 'keep'
        raise ExtractError(f'{nm}::bytes_to_le: body is neither empty nor the per-sample reversal')
    out.append('/-- `BigEndian::bytes_to_le` reverses every `bytes_per_sample` chunk -/\n'
               f'def bytesToLeReversesBE : Bool := {"true" if to_le(be, "BigEndian") == "rev" else "false"}\n')
    out.append('/-- `LittleEndian::bytes_to_le` leaves the buffer alone -/\n'
               f'def bytesToLeKeepsLE : Bool := {"true" if to_le(le, "LittleEndian") == "keep" else "false"}\n')
    out.append('end Flac.Gen')
    return '\n'.join(out) + '\n'

def lean_int(v):
    if v < 0:
        k = (-v).bit_length() - 1
        return f'-(2 ^ {k})' if (1 << k) == -v else f'-{-v}'
    return str(v)

def gen_rateenc(repo):
    """stream.rs `TryFrom<u32> for SampleRate<u32>` (how the writers choose the header's sample-rate code) and the
    stream writer's refusal of rates that only STREAMINFO could carry (encode.rs)"""
    n = ' '.join(strip_comments(open(os.path.join(repo, 'src/stream.rs')).read()).split())
    e = ' '.join(strip_comments(open(os.path.join(repo, 'src/encode.rs')).read()).split())
    out = ['/- GENERATED by tools/translate.py from src/stream.rs (TryFrom<u32> for SampleRate<u32>) and src/encode.rs (FlacStreamWriter::write) — do not edit -/', 'namespace Flac.Gen', '']
    m = re.search(r'impl TryFrom<u32> for SampleRate<u32> \{ type Error = Error; fn try_from\(sample_rate: u32\) -> Result<Self, Error> \{ match sample_rate \{ (.*?) _ => Err\(Error::InvalidSampleRate\), \} \} \}', n)
    if not m:
        raise ExtractError('TryFrom<u32> for SampleRate<u32>: expected a match on sample_rate ending in `_ => Err(Error::InvalidSampleRate)`')
    body = m.group(1)
    pairs = re.findall(r'(.+?) => Ok\(Self::(\w+)(?:\(rate\))?\),', body)
    if re.sub(r'(.+?) => Ok\(Self::(\w+)(?:\(rate\))?\),', '', body).strip():
        raise ExtractError('SampleRate::try_from: an arm that is not `pattern => Ok(Self::Variant[(rate)])`')
    fixed, guards, seen_guard = [], [], False
    def bound(t):
        t = t.strip()
        if t == 'u8::MAX as u32': return '255'
        if t == 'u16::MAX as u32': return '65535'
        mm = re.fullmatch(r'1 << (\d+)', t)
        if mm: return f'2 ^ {mm.group(1)}'
        if re.fullmatch(r'\d+', t): return t
        raise ExtractError(f'SampleRate::try_from: bound `{t}` not understood')
    cls = {'KHz': 1, 'DHz': 2, 'Hz': 3, 'Streaminfo': 4}
    for pat, var in pairs:
        pat = pat.strip()
        if re.fullmatch(r'\d+', pat):
            if seen_guard:
                raise ExtractError('SampleRate::try_from: a literal arm follows a guarded arm')
            if var != f'Hz{pat}':
                raise ExtractError(f'SampleRate::try_from: literal {pat} maps to {var}')
            fixed.append(int(pat)); continue
        seen_guard = True
        if var not in cls:
            raise ExtractError(f'SampleRate::try_from: unknown variant {var}')
        mm = re.fullmatch(r'rate if \(rate % (\d+)\) == 0 && \(rate / (\d+)\) < (.+)', pat)
        if mm and mm.group(1) == mm.group(2):
            guards.append((cls[var], f'rate % {mm.group(1)} == 0 && decide (rate / {mm.group(1)} < {bound(mm.group(3))})')); continue
        mm = re.fullmatch(r'rate if rate < (.+)', pat)
        if mm:
            guards.append((cls[var], f'decide (rate < {bound(mm.group(1))})')); continue
        raise ExtractError(f'SampleRate::try_from: guard `{pat}` not understood')
    if not fixed or not guards:
        raise ExtractError('SampleRate::try_from: no arms found')
    out.append('/-- `TryFrom<u32> for SampleRate<u32>`: the rates with a variant of their own, in source order -/\n'
               f'def encRateLiterals : List Nat := [{", ".join(map(str, fixed))}]\n')
    body = '  if encRateLiterals.contains rate then some 0\n'
    for c, g in guards:
        body += f'  else if {g} then some {c}\n'
    body += '  else none'
    out.append('/-- `TryFrom<u32> for SampleRate<u32>`: the class of variant chosen for a rate - 0 = a literal of the table, 1 = `KHz`, 2 = `DHz`, 3 = `Hz`,\n'
               '    4 = `Streaminfo` (no header field: the rate is only in STREAMINFO), none = `InvalidSampleRate`; the guards in source order -/\n'
               f'def encRateClass (rate : Nat) : Option Nat :=\n{body}\n')
    refuses = 'let sample_rate: SampleRate<u32> = sample_rate.try_into().and_then(|rate| match rate { SampleRate::Streaminfo(_) => Err(Error::NonSubsetSampleRate), rate => Ok(rate), })?;' in e
    accepts = 'let sample_rate: SampleRate<u32> = sample_rate.try_into()?;' in e
    if refuses == accepts:
        raise ExtractError('FlacStreamWriter::write: the sample-rate conversion has neither known shape')
    out.append('/-- `FlacStreamWriter::write` refuses a rate whose variant is `Streaminfo` (a raw stream has no STREAMINFO to carry it) -/\n'
               f'def streamWriterRefusesStreaminfoRate : Bool := {"true" if refuses else "false"}\n')
    m = re.search(r'impl From<SignedBitCount<32>> for BitsPerSample \{ (?:#\[inline\] )?fn from\(bps: SignedBitCount<32>\) -> Self \{ match bps \{ (.*?) bps => Self::Streaminfo\(bps\), \} \} \}', n)
    if not m:
        raise ExtractError('From<SignedBitCount<32>> for BitsPerSample: expected literal arms followed by `bps => Self::Streaminfo(bps)`')
    arms = re.findall(r'Self::BPS(\d+) => Self::Bps(\d+),', m.group(1))
    if re.sub(r'Self::BPS(\d+) => Self::Bps(\d+),', '', m.group(1)).strip() or any(a != b for a, b in arms) or not arms:
        raise ExtractError('From<SignedBitCount<32>> for BitsPerSample: an arm that is not `Self::BPSn => Self::Bpsn`')
    for a, _ in arms:
        if not re.search(r'const BPS' + a + r': SignedBitCount<32> = SignedBitCount::new::<' + a + r'>\(\);', n):
            raise ExtractError(f'BitsPerSample::BPS{a}: the constant is not SignedBitCount::new::<{a}>()')
    out.append('/-- `From<SignedBitCount<32>> for BitsPerSample`: the depths with a header code of their own (every other depth becomes `Streaminfo`) -/\n'
               f'def encBpsLiterals : List Nat := [{", ".join(a for a, _ in arms)}]\n')
    refuses = 'let header_bits_per_sample = match BitsPerSample::from(bits_per_sample) { BitsPerSample::Streaminfo(_) => return Err(Error::NonSubsetBitsPerSample), bps => bps, };' in e
    accepts = 'let header_bits_per_sample = BitsPerSample::from(bits_per_sample);' in e
    if refuses == accepts:
        raise ExtractError('FlacStreamWriter::write: the bits-per-sample conversion has neither known shape')
    out.append('/-- `FlacStreamWriter::write` refuses a depth whose variant is `Streaminfo` -/\n'
               f'def streamWriterRefusesStreaminfoBps : Bool := {"true" if refuses else "false"}\n')
    out.append('end Flac.Gen')
    return '\n'.join(out) + '\n'

def gen_wasted(repo):
    """encode.rs `encode_subframe`: how the number of wasted bits is determined and what happens for each outcome"""
    n = ' '.join(strip_comments(open(os.path.join(repo, 'src/encode.rs')).read()).split())
    out = ['/- GENERATED by tools/translate.py from src/encode.rs (encode_subframe, wasted bits) — do not edit -/', 'namespace Flac.Gen', '']
    m = re.search(r'const WASTED_MAX: NonZero<u32> = NonZero::new\((\d+)\)\.unwrap\(\);', n)
    if not m:
        raise ExtractError('encode_subframe: WASTED_MAX not found')
    wmax = int(m.group(1))
    m = re.search(r'match channel\.iter\(\)\.try_fold\(WASTED_MAX, \|acc, sample\| \{ NonZero::new\(sample\.trailing_zeros\(\)\)\.map\(\|sample\| sample\.(min|max)\(acc\)\) \}\) \{ '
                  r'None => \(channel, bits_per_sample, 0\), Some\(WASTED_MAX\) => \{ constant_output\.clear\(\); encode_constant_subframe\(constant_output, channel\[0\], bits_per_sample, 0\)\?; return Ok\(constant_output\); \} '
                  r'Some\(wasted_bps\) => \{ let wasted_bps = wasted_bps\.get\(\); wasted\.clear\(\); wasted\.extend\(channel\.iter\(\)\.map\(\|sample\| sample >> wasted_bps\)\); '
                  r'\( wasted\.as_slice\(\), bits_per_sample\.checked_sub\(wasted_bps\)\.unwrap\(\), wasted_bps, \) \} \};', n)
    if not m:
        raise ExtractError('encode_subframe: the wasted-bits determination (try_fold over trailing_zeros with its three outcomes) changed shape')
    out.append(f'/-- `WASTED_MAX`: the start value of the fold; also `0i32.trailing_zeros()` -/\ndef encWastedMax : Nat := {wmax}\n')
    out.append('/-- one step of `channel.iter().try_fold(WASTED_MAX, |acc, sample| NonZero::new(sample.trailing_zeros()).map(|s| s.' + m.group(1) + '(acc)))`:\n'
               '    `tz` = trailing zeros of the sample; `none` = the fold stops (no wasted bits) -/\n'
               f'def encWastedStep (acc tz : Nat) : Option Nat := if tz = 0 then none else some (Nat.{m.group(1)} tz acc)\n')
    # the `all_0` flag of every `CorrelatedChannel` literal in `correlate_channels` belongs to the sample vector of the same literal
    cc = re.search(r'fn correlate_channels<.*?fn encode_subframe<', n, re.S)
    if not cc:
        raise ExtractError('correlate_channels: not found')
    lits = re.findall(r'CorrelatedChannel \{ samples: (\w+), (bits_per_sample(?:: [^,]+?)?), all_0: ([^,]+?), \}', cc.group(0))
    if len(lits) < 10:
        raise ExtractError(f'correlate_channels: only {len(lits)} CorrelatedChannel literals found')
    own = {'left': 'left_abs_sum == 0', 'right': 'right_abs_sum == 0', 'average_samples': 'mid_abs_sum == 0', 'difference_samples': 'side_abs_sum == 0'}
    bad = [(sv, a) for sv, _, a in lits if not (a == 'false' or own.get(sv) == a)]
    out.append('/-- in `correlate_channels` every `CorrelatedChannel { samples: S, .., all_0: A }` has `A` = `false` or the absolute sum of that same `S` compared with 0\n'
               '    (`left`/`left_abs_sum`, `right`/`right_abs_sum`, `average_samples`/`mid_abs_sum`, `difference_samples`/`side_abs_sum`) -/\n'
               f'def encAll0FlagsOwnChannel : Bool := {"true" if not bad else "false"}\n')
    out.append(f'/-- number of `CorrelatedChannel` literals inspected -/\ndef encCorrelatedChannelLiterals : Nat := {len(lits)}\n')
    out.append('end Flac.Gen')
    return '\n'.join(out) + '\n'

def gen_finalize(repo):
    """encode.rs: how the placeholder seek points reserved from a declared total get their frame lengths"""
    n = ' '.join(strip_comments(open(os.path.join(repo, 'src/encode.rs')).read()).split())
    out = ['/- GENERATED by tools/translate.py from src/encode.rs (EncoderSeekPoint::placeholders) — do not edit -/', 'namespace Flac.Gen', '']
    m = re.search(r'fn placeholders\(total_samples: u64, block_size: u16\) -> impl Iterator<Item = EncoderSeekPoint> \{ \(0\.\.total_samples\) \.step_by\(usize::from\(block_size\)\) '
                  r'\.map\(move \|sample_offset\| EncoderSeekPoint \{ sample_offset, byte_offset: None, frame_samples: (.+?), \}\) \}', n)
    if not m:
        raise ExtractError('EncoderSeekPoint::placeholders: expected `(0..total_samples).step_by(block_size).map(|sample_offset| EncoderSeekPoint { sample_offset, byte_offset: None, frame_samples: … })`')
    e = m.group(1).strip()
    if e == 'u16::try_from(total_samples - sample_offset) .map(|s| s.min(block_size)) .unwrap_or(block_size)':
        rule = 'min blockSize remaining'          # saturating: more than 16 bits of samples remaining means a full block
    elif e in ('((total_samples - sample_offset) as u16).min(block_size)', '(total_samples - sample_offset) as u16).min(block_size)'):
        rule = 'min blockSize (remaining % 65536)'
    else:
        raise ExtractError(f'EncoderSeekPoint::placeholders: frame_samples expression `{e}` not understood')
    out.append('/-- `EncoderSeekPoint::placeholders`: the length of the placeholder frame that starts with `remaining` samples still to come -/\n'
               f'def encPlaceholderLen (blockSize remaining : Nat) : Nat := {rule}\n')
    out.append('end Flac.Gen')
    return '\n'.join(out) + '\n'

def gen_par(repo):
    """facts about the parallel feature of encode.rs (C18)"""
    n = ' '.join(strip_comments(open(os.path.join(repo, 'src/encode.rs')).read()).split())
    out = ['/- GENERATED by tools/translate.py from src/encode.rs (parallel feature) — do not edit -/', 'namespace Flac.Gen', '']
    def need(pat, what):
        m = re.search(pat, n)
        if not m:
            raise ExtractError(f'{what}: expected shape not found')
        return m
    # parallel sites (C18)
    raw = strip_comments(open(os.path.join(repo, 'src/encode.rs')).read())
    bad = [t for t in ['Mutex', 'RwLock', 'Atomic', 'static mut', 'thread_local', 'UnsafeCell', 'RefCell', 'unsafe ', 'Cell<', 'OnceLock', 'OnceCell', 'lazy_static', 'Condvar', 'mpsc'] if t in raw]
    out.append('/-- encode.rs holds no interior or global shared mutable state (Mutex, atomics, RefCell, static mut, unsafe, ...): the parallel closures can only touch what they borrow, and the borrow checker keeps `&mut` borrows disjoint -/\n'
               f'def encNoSharedMutableState : Bool := {"true" if not bad else "false"}\n')
    need(r'#\[cfg\(feature = "rayon"\)\] use rayon::join;', 'rayon::join import')
    need(r'#\[cfg\(feature = "rayon"\)\] fn vec_map<T, U, F>\(src: Vec<T>, f: F\) -> Vec<U> where T: Send, U: Send, F: Fn\(T\) -> U \+ Send \+ Sync, \{ use rayon::iter::\{IntoParallelIterator, ParallelIterator\}; src\.into_par_iter\(\)\.map\(f\)\.collect\(\) \}', 'parallel vec_map')
    need(r'fn try_join<A, B, RA, RB, E>\(oper_a: A, oper_b: B\) -> Result<\(RA, RB\), E> where .*? \{ let \(a, b\) = join\(oper_a, oper_b\); Ok\(\(a\?, b\?\)\) \}', 'try_join')
    njoin = len(re.findall(r'(?<![_a-z])join\(', n))
    ntry = len(re.findall(r'try_join\(', n))
    nvm = len(re.findall(r'vec_map\(', n))
    out.append(f'/-- call sites of `join` (one of them inside `try_join`), of `try_join` and of `vec_map` in encode.rs -/\ndef encParJoinSites : Nat := {njoin}\ndef encParTryJoinSites : Nat := {ntry}\ndef encParVecMapSites : Nat := {nvm}\n')
    out.append('end Flac.Gen')
    return '\n'.join(out) + '\n'

def gen_meta(repo):
    """metadata constants and shape-checked facts (metadata/mod.rs, metadata/cuesheet.rs)"""
    meta = ' '.join(strip_comments(open(os.path.join(repo, 'src/metadata/mod.rs')).read()).split())
    cue = ' '.join(strip_comments(open(os.path.join(repo, 'src/metadata/cuesheet.rs')).read()).split())
    out = ['/- GENERATED by tools/translate.py from src/metadata/mod.rs and src/metadata/cuesheet.rs — do not edit -/', 'namespace Flac.Gen', '']
    def need(text, pat, what):
        m = re.search(pat, text)
        if not m:
            raise ExtractError(f'{what}: expected shape not found')
        return m
    def flag(name, doc, yes, no, what, no_alt=()):
        """yes/no are literal fragments (or lists of fragments) of the normalised source; no_alt: further shapes that also mean `false`"""
        ys = yes if isinstance(yes, list) else [yes]
        ns = no if isinstance(no, list) else [no]
        src = meta + ' ' + cue
        if all(y in src for y in ys):
            v = 'true'
        elif all(x in src for x in ns) or any(x in src for x in no_alt):
            v = 'false'
        else:
            raise ExtractError(f'{what}: neither known shape found')
        out.append(f'/-- {doc} -/\ndef {name} : Bool := {v}\n')
    if 'w.write::<5, u32>(u32::from(self.bits_per_sample) - 1)?;' in meta:
        d1 = 'true'
    elif 'self.bits_per_sample .checked_sub::<0b11111>(1) .unwrap() .count(),' in meta:
        d1 = 'false'
    else:
        raise ExtractError('ToBitStream for Streaminfo: bits-per-sample field changed shape')
    out.append(f'/-- can `ToBitStream for Streaminfo` write a 1-bit depth (false = it unwraps `checked_sub(1)` of a signed bit count)? -/\ndef metaDepthOneWritable : Bool := {d1}\n')
    # block type codes
    body = need(meta, r'pub enum BlockType \{(.*?)\}', 'BlockType').group(1)
    codes = re.findall(r'(\w+) = (\d+),', body)
    if [c for c, _ in codes] != ['Streaminfo', 'Padding', 'Application', 'SeekTable', 'VorbisComment', 'Cuesheet', 'Picture']:
        raise ExtractError('BlockType: variants changed')
    out.append('/-- `BlockType` discriminants, in declaration order -/\ndef blockTypeCodes : List Nat := [' + ', '.join(v for _, v in codes) + ']\n')
    rd = need(meta, r'impl FromBitStream for BlockType \{.*?match r\.read::<7, u8>\(\)\? \{(.*?)\} \}', 'BlockType::from_reader').group(1)
    arms = re.findall(r'(\d+) => Ok\(Self::(\w+)\)', rd)
    if [(v, c) for c, v in codes] != arms:
        raise ExtractError('BlockType::from_reader: arms differ from the discriminants')
    m = need(rd, r'(\d+)\.\.=(\d+) => Err\(Error::ReservedMetadataBlock\), _ => Err\(Error::InvalidMetadataBlock\)', 'BlockType reserved range')
    out.append(f'def blockTypeReservedLo : Nat := {m.group(1)}\ndef blockTypeReservedHi : Nat := {m.group(2)}\n')
    m = need(meta, r'pub const ZERO: BlockSize = BlockSize\(0\); const MAX: u32 = \(1 << (\d+)\) - 1;', 'BlockSize::MAX')
    out.append(f'/-- `BlockSize::MAX` -/\ndef blockSizeMax : Nat := 2 ^ {m.group(1)} - 1\n')
    need(meta, r'const SIZE: BlockSize = BlockSize\(\(1 \+ 7 \+ 24\) / 8\);', 'BlockHeader::SIZE')
    # the bounds that `update_file`'s padding arithmetic goes through (`grow_padding`: `more_bytes.try_into()` then `checked_add`)
    def bound(e, what):
        e = e.strip()
        if e == 'Self::MAX':
            return 'blockSizeMax'
        mm = re.fullmatch(r'\(1 << (\d+)\) - 1', e)
        if mm:
            return f'2 ^ {mm.group(1)} - 1'
        mm = re.fullmatch(r'1 << (\d+)', e)
        if mm:
            return f'2 ^ {mm.group(1)}'
        if re.fullmatch(r'\d+', e):
            return e
        raise ExtractError(f'{what}: bound `{e}` is not one of Self::MAX, (1 << N) - 1, 1 << N, N')
    m = need(meta, r'pub fn checked_add\(self, rhs: Self\) -> Option<Self> \{ self\.0 \.checked_add\(rhs\.0\) \.filter\(\|s\| \*s <= (.+?)\) \.map\(Self\) \}', 'BlockSize::checked_add')
    out.append(f'/-- `BlockSize::checked_add`: the largest sum that is `Some` -/\ndef blockSizeAddBound : Nat := {bound(m.group(1), "BlockSize::checked_add")}\n')
    need(meta, r'pub fn checked_sub\(self, rhs: Self\) -> Option<Self> \{ self\.0\.checked_sub\(rhs\.0\)\.map\(Self\) \}', 'BlockSize::checked_sub')
    m = need(meta, r'impl TryFrom<u64> for BlockSize \{ type Error = BlockSizeOverflow; fn try_from\(u: u64\) -> Result<Self, Self::Error> \{ u32::try_from\(u\) \.map_err\(\|_\| BlockSizeOverflow\) \.and_then\(\|s\| \(s <= (.+?)\)\.then_some\(Self\(s\)\)\.ok_or\(BlockSizeOverflow\)\) \}', 'TryFrom<u64> for BlockSize')
    out.append(f'/-- `TryFrom<u64> for BlockSize`: the largest value that converts -/\ndef blockSizeFromU64Bound : Nat := {bound(m.group(1), "TryFrom<u64> for BlockSize")}\n')
    m = need(meta, r'pub const MAX_POINTS: usize = \(1 << (\d+)\) / \(\(64 \+ 64 \+ 16\) / 8\);', 'SeekTable::MAX_POINTS')
    out.append(f'def seekTableMaxPoints : Nat := 2 ^ {m.group(1)} / 18\n')
    need(meta, r'match \(size\.get\(\) / 18, size\.get\(\) % 18\) \{ \(p, 0\) =>', 'SeekTable::from_reader size rule')
    # picture types
    pt = need(meta, r'impl FromBitStream for PictureType \{.*?match r\.read_to::<u32>\(\)\? \{(.*?)_ => Err\(Error::InvalidPictureType\)', 'PictureType::from_reader').group(1)
    nums = [int(x) for x in re.findall(r'(\d+) => Ok\(Self::\w+\)', pt)]
    if nums != list(range(len(nums))):
        raise ExtractError('PictureType: codes are not 0..n')
    out.append(f'/-- picture type codes 0..=this are defined -/\ndef pictureTypeMax : Nat := {nums[-1]}\n')
    # the writer's table, each variant named by the code the READER gives it: (reader code, written code)
    rd = {v: int(k) for k, v in re.findall(r'(\d+) => Ok\(Self::(\w+)\)', pt)}
    wt = need(meta, r'impl ToBitStream for PictureType \{.*?w\.write_from::<u32>\(match self \{(.*?)\}\)', 'PictureType::to_writer').group(1)
    wr = re.findall(r'Self::(\w+) => (\d+)', wt)
    if sorted(v for v, _ in wr) != sorted(rd):
        raise ExtractError('PictureType: writer and reader name different variants')
    pairs = ', '.join(f'({rd[v]}, {c})' for v, c in sorted(wr, key=lambda x: rd[x[0]]))
    out.append(f'/-- `PictureType::to_writer`: (code the reader maps to the variant, code the writer emits for it) -/\ndef pictureTypeWrite : List (Nat × Nat) := [{pairs}]\n')
    m = need(meta, r'picture_type: PictureType::Png32x32, \.\. \}\)\)\) => \{ if !self\.png_read', 'reader png rule')
    # cue sheet constants
    m = need(meta, r'const LEAD_IN: u64 = (\d+) \* (\d+);', 'Cuesheet::LEAD_IN')
    out.append(f'def cueLeadIn : Nat := {int(m.group(1)) * int(m.group(2))}\n')
    m = need(meta, r'const CATALOG_LEN: usize = (\d+);', 'Cuesheet::CATALOG_LEN')
    out.append(f'def cueCatalogLen : Nat := {m.group(1)}\n')
    m = need(meta, r'tracks: contiguous::Contiguous<(\d+), cuesheet::TrackCDDA>', 'CDDA track capacity')
    out.append(f'def cueCddaTrackMax : Nat := {m.group(1)}\n')
    m = need(meta, r'tracks: contiguous::Contiguous<(\d+), cuesheet::TrackNonCDDA>', 'non-CDDA track capacity')
    out.append(f'def cueNonCddaTrackMax : Nat := {m.group(1)}\n')
    m = need(cue, r'pub type TrackCDDA = Track<CDDAOffset, NonZero<u8>, IndexVec<(\d+), CDDAOffset>>;', 'TrackCDDA')
    out.append(f'def cueCddaIndexMax : Nat := {m.group(1)}\n')
    m = need(cue, r'pub type TrackNonCDDA = Track<u64, NonZero<u8>, IndexVec<(\d+), u64>>;', 'TrackNonCDDA')
    out.append(f'def cueNonCddaIndexMax : Nat := {m.group(1)}\n')
    m = need(meta, r'\.checked_sub\(1\) \.filter\(\|c\| \*c <= (\d+)\) \.ok_or\(Error::from\(CuesheetError::NoTracks\)\)', 'CDDA reader track count')
    out.append(f'/-- CD-DA reader: `track_count - 1` may be at most this -/\ndef cueCddaReadTrackLimit : Nat := {m.group(1)}\n')
    m = need(cue, r'const SAMPLES_PER_SECTOR: u64 = (\d+) / (\d+);', 'SAMPLES_PER_SECTOR')
    out.append(f'def cueSector : Nat := {int(m.group(1)) // int(m.group(2))}\n')
    m = need(cue, r'pub const CDDA: NonZero<u8> = NonZero::new\((\d+)\)\.unwrap\(\);', 'LeadOut::CDDA')
    out.append(f'def cueLeadOutCdda : Nat := {m.group(1)}\n')
    m = need(cue, r'pub const NON_CDDA: NonZero<u8> = NonZero::new\((\d+)\)\.unwrap\(\);', 'LeadOut::NON_CDDA')
    out.append(f'def cueLeadOutNonCdda : Nat := {m.group(1)}\n')
    need(meta, r'r\.skip\(7 \+ 258 \* 8\)\?; let track_count: u8 = r\.read_to\(\)\?;', 'cue sheet header padding')
    if cue.count('r.skip(6 + 13 * 8)?;') != 4 or cue.count('w.pad(6 + 13 * 8)?;') != 4:
        raise ExtractError('cue sheet track padding changed')
    if cue.count('r.skip(3 * 8)?;') != 2 or cue.count('w.pad(3 * 8)') != 2:
        raise ExtractError('cue sheet index padding changed')
    # MM:SS:FF
    m = need(cue, r'let ff: u64 = ff\.parse\(\)\.ok\(\)\.filter\(\|ff\| \*ff < (\d+)\)\.ok_or\(\(\)\)\?; let ss: u64 = ss\.parse\(\)\.ok\(\)\.filter\(\|ss\| \*ss < (\d+)\)\.ok_or\(\(\)\)\?; let mm: u64 = mm\.parse\(\)\.map_err\(\|_\| \(\)\)\?;', 'CDDAOffset::from_str fields')
    out.append(f'def cueFramesPerSecond : Nat := {m.group(1)}\ndef cueSecondsPerMinute : Nat := {m.group(2)}\n')
    flag('cueOffsetChecked', 'does `CDDAOffset::from_str` convert with checked arithmetic (false = `(ff + ss * 75 + mm * 75 * 60) * 588` unchecked)?',
         'mm.checked_mul(75 * 60) .and_then(|frames| frames.checked_add(ff + ss * 75)) .and_then(|frames| frames.checked_mul(588)) .map(|offset| Self { offset }) .ok_or(())',
         'Ok(Self { offset: (ff + ss * 75 + mm * 75 * 60) * 588, })', 'CDDAOffset::from_str conversion')
    flag('cueIsrcExact', 'does `ISRCString::from_str` require exactly 5 designation digits (false = any number of trailing digits)?',
         '.and_then(|s| (s.len() == 5 && s.chars().all(|c| c.is_ascii_digit())).then_some(()))',
         '.and_then(|s| s.chars().all(|c| c.is_ascii_digit()).then_some(()))', 'ISRCString::from_str')
    need(cue, r'filter_split\(&isrc, 2, \|c\| c\.is_ascii_alphabetic\(\)\) \.and_then\(\|s\| filter_split\(s, 3, \|c\| c\.is_ascii_alphanumeric\(\)\)\) \.and_then\(\|s\| filter_split\(s, 2, \|c\| c\.is_ascii_digit\(\)\)\)', 'ISRC pattern')
    flag('cueIndexBeforeTrackIsError', 'does the text importer refuse an index point earlier than its track\'s first index (false = it subtracts unchecked)?',
         'if offset < *track_offset { return Err(CuesheetError::IndexPointsOutOfSequence); } cuesheet::Index { number, offset: offset - *track_offset, }',
         'Some(track_offset) => { cuesheet::Index { number, offset: offset - *track_offset, } }', 'ParsedCuesheet::parse index arm')
    flag('cueCatalogChecked', 'does the non-CD-DA writer refuse a catalog number longer than its field (false = it truncates)?',
         'if catalog_number.len() > Self::CATALOG_LEN { return Err(CuesheetError::InvalidCatalogNumber.into()); }',
         'lead_out, } => { w.write_from({ let mut number = [0; Self::CATALOG_LEN];', 'ToBitStream for Cuesheet (non-CD-DA)')
    flag('cueAccessorsSaturate', 'do `track_offsets`, `display` and `track_byte_ranges` saturate (false = plain `+` / `*`)?',
         ['.map(|t| u64::from(t.offset).saturating_add(u64::from(*t.index_points.start())))', '.map(|t| t.offset.saturating_add(*t.index_points.start()))',
          'start.saturating_mul(multiplier)..end.saturating_mul(multiplier)', 'Timestamp::from(index.offset.saturating_add(track.offset))'],
         ['.map(|t| u64::from(t.offset + *t.index_points.start()))', '.map(|t| t.offset + t.index_points.start())', 'start * multiplier..end * multiplier'],
         'cue sheet accessors')
    flag('metaDurationGuardsZero', 'does `Metadata::duration` return `None` for sample rate 0 (false = it divides by it)?',
         'self.total_samples().filter(|_| sample_rate > 0).map(|s| { std::time::Duration::new( s / sample_rate,',
         'self.total_samples().map(|s| { std::time::Duration::new( s / sample_rate,', 'Metadata::duration')
    flag('picPngDepthWide', 'is the PNG colour depth computed in 32 bits (false = `bit_depth * n` in 8 bits)?',
         ['2 => (u32::from(bit_depth) * 3, None)', '4 => (u32::from(bit_depth) * 2, None)', '6 => (u32::from(bit_depth) * 4, None)'],
         ['2 => ((bit_depth * 3).into(), None)', '4 => ((bit_depth * 2).into(), None)', '6 => ((bit_depth * 4).into(), None)'], 'try_png colour depth')
    need(meta, r'let \(color_depth, colors_used\) = match color_type \{ 0 => \(bit_depth\.into\(\), None\), 2 => .*?, 3 => \(0, NonZero::new\(plte_colors\(r\)\?\)\), 4 => .*?, 6 => .*?, _ => return Err\(InvalidPicture::Png\("invalid color type"\)\), \};', 'try_png colour types')
    flag('picJpegDepthWide', 'is the JPEG colour depth computed in 32 bits (false = `data_precision * components` in 8 bits)?',
         'color_depth: u32::from(data_precision) * u32::from(components),', 'color_depth: (data_precision * components).into(),', 'try_jpeg colour depth')
    m = need(meta, r'match r\.read::<u8>\(\)\? \{ ((?:0x[0-9A-F]{2} \| )+0x[0-9A-F]{2}) => \{ let _len = r\.read::<u16>\(\)\?;', 'try_jpeg SOF markers')
    out.append('/-- JPEG start-of-frame markers recognised by `try_jpeg` -/\ndef picJpegSof : List Nat := [' + ', '.join(str(int(x, 16)) for x in m.group(1).split(' | ')) + ']\n')
    flag('seekMaxOffsetRefused', 'does the SEEKTABLE writer refuse a defined point at offset u64::MAX (false = it is written and reads back as a placeholder)?',
         '_ if point.sample_offset() == Some(u64::MAX) => Err(Error::InvalidSeekTablePoint), None => {',
         '.try_for_each(|point| match last_offset.as_mut() { None => {', 'ToBitStream for SeekTable')
    for nm, frag, doc in [
        ('shapePlaceholderSkips10Bytes', 'u64::MAX => { let _byte_offset = r.read_to::<u64>()?; let _frame_samples = r.read_to::<u16>()?; Ok(Self::Placeholder) }',
         'a placeholder seek point consumes its 8 + 2 trailing bytes'),
        ('shapeRebuildWritesAll', 'rebuilt() .and_then(|mut f| f.write_all(tmp.as_slice())) .map_err(Error::Io)', 'the rebuild path writes the whole new file with `write_all`'),
        ('shapeUnquoteGuarded', "if s.len() > 1 && s.starts_with('\"') && s.ends_with('\"') { &s[1..s.len() - 1] } else { s }", '`unquote` only strips quotes from values longer than one character'),
    ]:
        present = frag in meta
        if not present:
            ADVISORY.append({'file': 'Meta.lean', 'item': nm, 'error': f'the mirrored source shape is gone: {frag[:90]}'})
        out.append(f'/-- {doc} -/\ndef {nm} : Bool := {"true" if present else "false"}\n')
    for nm, a1, a2, doc in [('shapeCueFlagOrder', 'w.write_bit(self.non_audio)?; w.write_bit(self.pre_emphasis)?; w.pad(6 + 13 * 8)?;', 'let non_audio = r.read_bit()?; let pre_emphasis = r.read_bit()?; r.skip(6 + 13 * 8)?;',
                             'all four cue sheet track writers and readers put non_audio before pre_emphasis')]:
        if cue.count(a1) != 4 or cue.count(a2) != 4:
            ADVISORY.append({'file': 'Meta.lean', 'item': nm, 'error': 'expected 4 writers and 4 readers with this flag order'})
            out.append(f'/-- {doc} -/\ndef {nm} : Bool := false\n')
            continue
        out.append(f'/-- {doc} -/\ndef {nm} : Bool := true\n')
    flag('metaUpdateFlushes', 'does the in-place path of `update_file` flush its buffered writer and report the result (false = the writer is dropped unflushed)?',
         ['let mut w = BufWriter::new(w); write_blocks(&mut w, blocks)?; w.flush().map_err(Error::Io)', 'write_in_place(original, blocks) .map(|()| false) .map_err(E::from)'], 'write_blocks(BufWriter::new(original), blocks) .map(|()| false) .map_err(E::from)', 'update_file in-place write',
         no_alt=['fn write_in_place<W: Write>(w: W, blocks: BlockList) -> Result<(), Error> { write_blocks(BufWriter::new(w), blocks) }'])
    out.append('end Flac.Gen')
    return '\n'.join(out) + '\n'

# ------------------------------------------------------------------------------------------------
# shape tripwires: places where the hand-written model mirrors a specific piece of source text.  Each
# is a literal fragment of the comment-stripped, whitespace-normalised source; a file fails to
# regenerate when one of its fragments is gone, and the properties whose model imports that file
# then report a broken obligation.
# ------------------------------------------------------------------------------------------------
def _norm(repo, f):
    return ' '.join(strip_comments(open(os.path.join(repo, 'src', f)).read()).split())

ADVISORY = []   # shape tripwires that no longer match (file, name, detail): they carry no definition a theorem uses

def _shapes(repo, title, items, fname=None):
    """shape tripwires: literal fragments of the source text that a hand-written model function mirrors.  A tripwire that no
    longer matches is not a broken proof obligation (no theorem mentions it): it is reported as advisory, and `check` answers
    by re-validating the hand-written model against the implementation with the escalated budget."""
    out = [f'/- GENERATED by tools/translate.py ({title}) — do not edit -/', 'namespace Flac.Gen', '']
    cache = {}
    for name, f, frag, doc in items:
        if f not in cache:
            cache[f] = _norm(repo, f)
        present = frag in cache[f]
        if not present:
            ADVISORY.append({'file': fname or '?', 'item': name, 'error': f'{f}: the mirrored source shape is gone: {frag[:90]}'})
        out.append(f'/-- {doc} -/\ndef {name} : Bool := {"true" if present else "false"}\n')
    out.append('end Flac.Gen')
    return '\n'.join(out) + '\n'

def gen_shapes_hdr(repo):
    return _shapes(repo, 'frame header shapes mirrored by Model/Frame.lean', fname='ShapesHdr.lean', items=[
        ('shapeBlockSize16Checked', 'stream.rs', 'BlockSize::Uncommon16(()) => Ok(Self::Uncommon16( r.read::<16, u16>()? .checked_add(1) .ok_or(Error::InvalidBlockSize)?, )),',
         'the 16-bit block-size-minus-one field is incremented with `checked_add` (65536 is an invalid block size)'),
        ('shapeBlockSize8', 'stream.rs', 'BlockSize::Uncommon8(()) => Ok(Self::Uncommon8(r.read::<8, u16>()? + 1)),', 'the 8-bit block-size field is the size minus one'),
        ('shapeChannelsMustEqual', 'stream.rs', '(h.channel_assignment.count() == streaminfo.channels.get()) .then_some(h) .ok_or(Error::ChannelsMismatch)',
         'a frame must have exactly the channel count STREAMINFO declares'),
    ])

def gen_shapes_rd(repo):
    return _shapes(repo, 'reader shapes mirrored by Model/Readers.lean, Model/StreamReader.lean, Model/FileDecode.lean', fname='ShapesRd.lean', items=[
        ('shapeSampleReadRefillsWhenEmpty', 'decode.rs', 'if self.buf.is_empty() { match self.decoder.read_frame()? { Some(frame) => { self.buf.extend(frame.iter()); } None => return Ok(0), } } let to_consume = samples.len().min(self.buf.len());',
         '`FlacSampleReader::read` decodes the next frame only when its buffer is empty'),
        ('shapeNoSeektableRewinds', 'decode.rs', 'self.reader.seek(SeekFrom::Start(frames_start))?; self.current_sample = 0; Ok(0)',
         'a seek without a usable seek point rewinds to the first frame and resets the sample position'),
        ('shapeStreamResyncKeepsByte', 'decode.rs', 'if let Ok(header) = FrameHeader::read_subset(&mut crc_reader) { break (header, crc_reader); } } Ok(_) => continue,',
         '`FlacStreamReader::read` does not consume the byte it peeked after a 0xFF that is not followed by the second sync byte'),
        ('shapeCounterCountsBytesRead', 'lib.rs', 'fn read(&mut self, buf: &mut [u8]) -> std::io::Result<usize> { self.stream.read(buf).inspect(|bytes| { self.count += u64::try_from(*bytes).unwrap(); }) }',
         '`Counter::read` counts the bytes actually read'),
    ])

def gen_shapes_enc(repo):
    return _shapes(repo, 'encoder-side shapes mirrored by Model/Writers.lean, Model/Finalize.lean, Model/Encode.lean', fname='ShapesEnc.lean', items=[
        ('shapeSeekPointFrameSamples', 'encode.rs', 'byte_offset: Some(self.writer.count), frame_samples: frame.pcm_frames() as u16,',
         'a recorded seek point carries the length of the frame just written'),
        ('shapeFixedFallsThroughToVerbatimCheck', 'encode.rs', 'wasted_bps, ) { Ok(()) => fixed_output, Err(_) => { verbatim_output.clear();',
         'without LPC the FIXED candidate still goes through the comparison with the verbatim length'),
        ('shapeByteWriterConvertsPerBlock', 'encode.rs', '.chunks_exact_mut(self.frame_byte_size) { E::bytes_to_le(buf, self.bytes_per_sample);',
         '`FlacByteWriter::write` converts the byte order of each block once, inside the block loop'),
    ])

GENERATORS = [
    ('Crc.lean', 'crc.rs CRC tables and update', gen_crc),
    ('Tables.lean', 'stream.rs header code tables', gen_tables),
    ('KernelsDec.lean', 'decode.rs arithmetic kernels and read_frame facts', gen_kernels_dec),
    ('KernelsEnc.lean', 'encode.rs arithmetic kernels and candidate-selection facts', gen_kernels_enc),
    ('EncConst.lean', 'encode.rs option ranges, limits and the declared-length checks', gen_encconst),
    ('Meta.lean', 'metadata constants, cue sheet limits and shape-checked facts', gen_meta),
    ('Par.lean', 'parallel feature facts', gen_par),
    ('Resid.lean', 'write_residuals facts behind the constant-block clause', gen_resid),
    ('CrcIo.lean', 'which bytes CrcWriter::write / CrcReader::read checksum', gen_crcio),
    ('ByteOrder.lean', 'byteorder.rs 24-bit conversions and bytes_to_le', gen_byteorder),
    ('RateEnc.lean', 'SampleRate::try_from and the stream writer rate rule', gen_rateenc),
    ('Wasted.lean', 'encode_subframe wasted-bits determination', gen_wasted),
    ('Finalize.lean', 'EncoderSeekPoint::placeholders frame lengths', gen_finalize),
    ('ShapesHdr.lean', 'frame header shapes', gen_shapes_hdr),
    ('ShapesRd.lean', 'reader shapes', gen_shapes_rd),
    ('ShapesEnc.lean', 'encoder-side shapes', gen_shapes_enc),
]

def main():
    ap = argparse.ArgumentParser()
    ap.add_argument('--repo', default='/repo')
    ap.add_argument('--out', default=os.path.join(os.path.dirname(os.path.abspath(__file__)), '..', 'lean', 'FlacModel', 'Gen'))
    ap.add_argument('--report', default=None)
    a = ap.parse_args()
    os.makedirs(a.out, exist_ok=True)
    report = {'generated': [], 'failed': [], 'advisory': []}
    for fname, what, fn in GENERATORS:
        path = os.path.join(a.out, fname)
        try:
            text = fn(a.repo)
        except ExtractError as e:
            report['failed'].append({'file': fname, 'item': what, 'error': str(e)})
            continue
        except Exception as e:  # shape so different that the extractor itself tripped
            report['failed'].append({'file': fname, 'item': what, 'error': f'{type(e).__name__}: {e}'})
            continue
        old = open(path).read() if os.path.exists(path) else None
        if old != text:
            with open(path, 'w') as f:
                f.write(text)
        report['generated'].append({'file': fname, 'changed': old != text})
    report['advisory'] = ADVISORY
    if a.report:
        json.dump(report, open(a.report, 'w'), indent=1)
    for f in report['failed']:
        print(f"translator:{f['file']}: {f['error']}", file=sys.stderr)
    return 1 if report['failed'] else 0

if __name__ == '__main__':
    sys.exit(main())
