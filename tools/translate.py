#!/usr/bin/env python3
"""
translate.py — regenerate lean/FlacModel/Gen/*.lean from the CURRENT /repo sources.

Each extractor names the Rust item it reads, fails loudly (recorded as a broken obligation
`translator:<item>`) when the item or its expected shape is gone, and emits plain Lean
definitions.  Files are rewritten only when their content changes.

usage: translate.py [--repo /repo] [--out /verif/lean/FlacModel/Gen] [--report FILE]
"""
import re, sys, os, json, argparse

class ExtractError(Exception):
    pass

def strip_comments(src):
    # remove // comments (not inside strings; the sources have no '//' in string literals
    # on the lines we read) and /* */ blocks
    src = re.sub(r'/\*.*?\*/', '', src, flags=re.S)
    out = []
    for line in src.split('\n'):
        i = line.find('//')
        if i >= 0:
            line = line[:i]
        out.append(line)
    return '\n'.join(out)

def brace_block(src, start):
    """src[start] must be '{'; returns index just after the matching '}'"""
    assert src[start] == '{'
    depth = 0
    i = start
    while i < len(src):
        c = src[i]
        if c == '{':
            depth += 1
        elif c == '}':
            depth -= 1
            if depth == 0:
                return i + 1
        i += 1
    raise ExtractError('unbalanced braces')

def find_block(src, header_re, item):
    m = re.search(header_re, src)
    if not m:
        raise ExtractError(f'{item}: header not found')
    b = src.find('{', m.end() - 1)
    if b < 0:
        raise ExtractError(f'{item}: no body')
    e = brace_block(src, b)
    return src[b:e]

def num(s):
    s = s.replace('_', '')
    if s.startswith('0x') or s.startswith('0X'):
        return int(s, 16)
    if s.startswith('0b'):
        return int(s[2:], 2)
    return int(s)

NUM = r'(?:0x[0-9a-fA-F_]+|0b[01_]+|[0-9][0-9_]*)'

# ---------------------------------------------------------------------------------------------
# a small Rust expression parser (subset) -> Lean expression over Nat with explicit widths
# ---------------------------------------------------------------------------------------------
TOK = re.compile(r'\s*(?:(' + NUM + r')|([A-Za-z_][A-Za-z0-9_]*(?:\.[0-9]+)?)|(>>|<<|==|!=|<=|>=|&&|\|\||[-+*/%^&|()<>\[\]!.,]))')

def tokenize(s):
    pos = 0
    toks = []
    s = s.strip()
    while pos < len(s):
        m = TOK.match(s, pos)
        if not m:
            raise ExtractError(f'cannot tokenize expression at: {s[pos:pos+20]!r}')
        if m.group(1):
            toks.append(('num', num(m.group(1))))
        elif m.group(2):
            toks.append(('id', m.group(2)))
        else:
            toks.append(('op', m.group(3)))
        pos = m.end()
    return toks

WIDTH = {'u8': 8, 'u16': 16, 'u32': 32, 'u64': 64, 'usize': 64}

class UExpr:
    """unsigned-integer expression parser: yields (lean_string, width).  Semantics: values are
    Nat; `<<` truncates to the operand width (Rust discards shifted-out bits, and panics only for
    shift amounts >= width, which the extracted kernels never use with literals >= width);
    `^ & |` are bitwise; `>>` is logical; `as uN` truncates/extends."""
    def __init__(self, toks, env):
        self.t = toks; self.i = 0; self.env = env
    def peek(self):
        return self.t[self.i] if self.i < len(self.t) else (None, None)
    def eat(self, kind=None, val=None):
        k, v = self.peek()
        if (kind and k != kind) or (val is not None and v != val):
            raise ExtractError(f'expression: expected {val or kind}, got {v!r}')
        self.i += 1
        return v
    # precedence (Rust): * / %  >  + -  >  << >>  >  &  >  ^  >  |
    def parse(self):
        e = self.p_or()
        if self.i != len(self.t):
            raise ExtractError(f'expression: trailing tokens {self.t[self.i:]}')
        return e
    def binlevel(self, sub, ops):
        l = sub()
        while self.peek() in [('op', o) for o in ops]:
            o = self.eat()
            r = sub()
            l = self.mk(o, l, r)
        return l
    def p_or(self):  return self.binlevel(self.p_xor, ['|'])
    def p_xor(self): return self.binlevel(self.p_and, ['^'])
    def p_and(self): return self.binlevel(self.p_shift, ['&'])
    def p_shift(self): return self.binlevel(self.p_add, ['<<', '>>'])
    def p_add(self): return self.binlevel(self.p_mul, ['+', '-'])
    def p_mul(self): return self.binlevel(self.p_cast, ['*', '/', '%'])
    def p_cast(self):
        e = self.p_atom()
        while self.peek() == ('id', 'as'):
            self.eat()
            ty = self.eat('id')
            if ty not in WIDTH:
                raise ExtractError(f'expression: unsupported cast to {ty}')
            w = WIDTH[ty]
            s, ow = e
            e = (f'({s} % {2**w})', w) if (ow is None or ow > w) else (s, w)
        return e
    def p_atom(self):
        k, v = self.peek()
        if k == 'num':
            self.eat(); return (str(v), None)
        if k == 'op' and v == '(':
            self.eat(); e = self.p_or(); self.eat('op', ')'); return (f'({e[0]})', e[1])
        if k == 'id':
            self.eat()
            if self.peek() == ('op', '['):
                self.eat(); idx = self.p_or(); self.eat('op', ']')
                if v not in self.env:
                    raise ExtractError(f'expression: unknown table {v}')
                name, w = self.env[v]
                return (f'({name}.getD ({idx[0]}) 0)', w)
            if v not in self.env:
                raise ExtractError(f'expression: unknown identifier {v}')
            return self.env[v]
        raise ExtractError(f'expression: unexpected token {v!r}')
    def mk(self, o, l, r):
        w = l[1] if l[1] is not None else r[1]
        if l[1] is not None and r[1] is not None and l[1] != r[1] and o not in ('<<', '>>'):
            raise ExtractError(f'expression: width mismatch {l} {o} {r}')
        if o in ('<<', '>>'):
            w = l[1]
        if w is None:
            raise ExtractError('expression: untyped operands')
        m = 2 ** w
        if o == '^': return (f'(Nat.xor {l[0]} {r[0]})', w)
        if o == '&': return (f'(Nat.land {l[0]} {r[0]})', w)
        if o == '|': return (f'(Nat.lor {l[0]} {r[0]})', w)
        if o == '<<': return (f'(({l[0]} * 2 ^ {r[0]}) % {m})', w)
        if o == '>>': return (f'({l[0]} / 2 ^ {r[0]})', w)
        raise ExtractError(f'expression: operator {o} not in the unsigned subset')

def uexpr(text, env):
    return UExpr(tokenize(text), env).parse()

# ---------------------------------------------------------------------------------------------
# extractors
# ---------------------------------------------------------------------------------------------
def gen_crc(repo):
    src = strip_comments(open(os.path.join(repo, 'src/crc.rs')).read())
    out = ['/- GENERATED by tools/translate.py from src/crc.rs — do not edit -/',
           'namespace Flac.Gen', '']
    for name, ty, w in (('Crc8', 'u8', 8), ('Crc16', 'u16', 16)):
        item = f'impl Checksum for {name}'
        body = find_block(src, r'impl\s+Checksum\s+for\s+' + name + r'\b', item)
        upd = find_block(body, r'fn\s+update\s*\(\s*self\s*,\s*byte\s*:\s*u8\s*\)\s*->\s*Self', item + '::update')
        m = re.search(r'static\s+SUMTABLE\s*:\s*&\[\s*' + ty + r'\s*;\s*256\s*\]\s*=\s*&\[(.*?)\]\s*;', upd, flags=re.S)
        if not m:
            raise ExtractError(f'{item}::update: SUMTABLE [{ty}; 256] not found')
        vals = [num(x) for x in re.findall(NUM, m.group(1))]
        if len(vals) != 256:
            raise ExtractError(f'{item}::update: SUMTABLE has {len(vals)} entries')
        rest = upd[m.end():]
        m2 = re.search(r'Self\s*\((.*)\)\s*}\s*$', rest, flags=re.S)
        if not m2:
            raise ExtractError(f'{item}::update: result expression `Self(...)` not found')
        lname = name.lower()
        env = {'self.0': ('c', w), 'byte': ('byte', 8), 'SUMTABLE': (f'{lname}Table', w)}
        e, ew = uexpr(m2.group(1), env)
        if ew != w:
            raise ExtractError(f'{item}::update: result width {ew} != {w}')
        out.append(f'def {lname}Table : List Nat := [')
        for i in range(0, 256, 8):
            out.append('  ' + ', '.join(str(v) for v in vals[i:i+8]) + (',' if i < 248 else ''))
        out.append(']')
        out.append('')
        out.append(f'/-- `{name}::update`: `{ " ".join(m2.group(1).split()) }` -/')
        out.append(f'def {lname}Update (c byte : Nat) : Nat := {e}')
        out.append('')
        v = find_block(body, r'fn\s+valid\s*\(\s*self\s*\)\s*->\s*bool', item + '::valid')
        if not re.search(r'self\.0\s*==\s*0', v):
            raise ExtractError(f'{item}::valid: expected `self.0 == 0`')
        out.append(f'def {lname}Valid (c : Nat) : Bool := c == 0')
        out.append('')
    out.append('end Flac.Gen')
    return '\n'.join(out) + '\n'

def arms(body, item):
    """list of (pattern, rhs) for `pat => rhs,` arms of the first match in body"""
    m = re.search(r'\bmatch\b[^{]*{', body)
    if not m:
        raise ExtractError(f'{item}: no match expression')
    b = m.end() - 1
    e = brace_block(body, b)
    inner = body[b+1:e-1]
    res = []
    # split at top-level commas
    depth = 0; cur = ''
    for ch in inner:
        if ch in '({[': depth += 1
        if ch in ')}]': depth -= 1
        if ch == ',' and depth == 0:
            res.append(cur); cur = ''
        else:
            cur += ch
    if cur.strip():
        res.append(cur)
    out = []
    for a in res:
        if '=>' not in a:
            continue
        p, r = a.split('=>', 1)
        out.append((' '.join(p.split()), ' '.join(r.split())))
    return out

def lean_pairs(name, pairs, doc=None):
    s = ''
    if doc:
        s += f'/-- {doc} -/\n'
    s += f'def {name} : List (Nat × Nat) := [' + ', '.join(f'({a}, {b})' for a, b in pairs) + ']\n'
    return s

def lean_list(name, xs, doc=None):
    s = ''
    if doc:
        s += f'/-- {doc} -/\n'
    return s + f'def {name} : List Nat := [' + ', '.join(str(x) for x in xs) + ']\n'

def gen_tables(repo):
    src = strip_comments(open(os.path.join(repo, 'src/stream.rs')).read())
    out = ['/- GENERATED by tools/translate.py from src/stream.rs — do not edit -/',
           'namespace Flac.Gen', '']

    def variant_values(impl_re, item):
        """`impl From<X<..>> for uN`: variant -> value for the fixed variants"""
        body = find_block(src, impl_re, item)
        vals = {}
        for p, r in arms(body, item):
            for v in re.findall(r'::(\w+)\b(?!\()', p):
                if re.fullmatch(NUM, r):
                    vals[v] = num(r)
        return vals

    def read_codes(impl_re, item, bits):
        """code -> ('ok', variant, has_payload) | ('err', class)"""
        body = find_block(src, impl_re, item)
        mm = re.search(r'match\s+r\.read::<\s*(\d+)\s*,\s*u8\s*>\(\)\?', body)
        if not mm or int(mm.group(1)) != bits:
            raise ExtractError(f'{item}: expected a {bits}-bit field read')
        codes = {}
        for p, r in arms(body, item):
            rng = re.fullmatch(r'(?:\w+\s*@\s*)?(' + NUM + r')(?:\s*\.\.=\s*(' + NUM + r'))?', p)
            if not rng:
                continue
            lo = num(rng.group(1)); hi = num(rng.group(2)) if rng.group(2) else lo
            for c in range(lo, hi + 1):
                if c >= 2 ** bits:
                    continue
                mo = re.match(r'Ok\(\s*Self::(\w+)\s*(\(.*)?\)$', r)
                me = re.match(r'Err\(\s*Error::(\w+)\s*\)$', r)
                if mo:
                    codes[c] = ('ok', mo.group(1), r)
                elif me:
                    codes[c] = ('err', me.group(1))
                else:
                    raise ExtractError(f'{item}: arm `{p} => {r}` not understood')
        if sorted(codes) != list(range(2 ** bits)):
            raise ExtractError(f'{item}: arms do not cover all {2**bits} codes')
        return codes

    def write_codes(impl_re, item, bits):
        body = find_block(src, impl_re, item)
        if not re.search(r'w\.write::<\s*' + str(bits) + r'\s*,\s*u8\s*>', body):
            raise ExtractError(f'{item}: expected a {bits}-bit field write')
        codes = {}
        for p, r in arms(body, item):
            mv = re.search(r'Self::(\w+(?:\(Independent::\w+\))?)', p)
            if mv and re.fullmatch(NUM, r):
                codes[mv.group(1)] = num(r)
        return codes

    # ---- block size
    bs_read = read_codes(r'impl\s+FromBitStream\s+for\s+BlockSize<\(\)>', 'BlockSize<()>::from_reader', 4)
    bs_val = variant_values(r'impl\s+From<BlockSize<u16>>\s+for\s+u16', 'From<BlockSize<u16>> for u16')
    bs_write = write_codes(r'impl<B>\s+ToBitStream\s+for\s+BlockSize<B>', 'BlockSize::to_writer', 4)
    fixed = []; u8c = []; u16c = []; inval = []
    for c in range(16):
        e = bs_read[c]
        if e[0] == 'err':
            inval.append(c)
        elif e[1] == 'Uncommon8':
            u8c.append(c)
        elif e[1] == 'Uncommon16':
            u16c.append(c)
        else:
            if e[1] not in bs_val:
                raise ExtractError(f'BlockSize: no value for variant {e[1]}')
            fixed.append((c, bs_val[e[1]]))
    out.append(lean_pairs('blockSizeCodeFixed', fixed, 'block-size code ↦ samples (read arm ∘ `From<BlockSize<u16>> for u16`)'))
    out.append(lean_list('blockSizeCodeU8', u8c, 'codes followed by an 8-bit (size−1) field'))
    out.append(lean_list('blockSizeCodeU16', u16c, 'codes followed by a 16-bit (size−1) field'))
    out.append(lean_list('blockSizeCodeInvalid', inval))
    # TryFrom<u16>: value -> variant -> written code
    body = find_block(src, r'impl\s+TryFrom<u16>\s+for\s+BlockSize<u16>', 'TryFrom<u16> for BlockSize<u16>')
    tf = []; u8bound = None; zero_err = False; default16 = False
    for p, r in arms(body, 'TryFrom<u16> for BlockSize<u16>'):
        if re.fullmatch(NUM, p):
            mo = re.match(r'Ok\(Self::(\w+)\)', r)
            if mo:
                tf.append((num(p), bs_write[mo.group(1)]))
            elif num(p) == 0 and r.startswith('Err'):
                zero_err = True
        else:
            mg = re.fullmatch(r'size if size <= (' + NUM + r')', p)
            if mg and 'Uncommon8' in r:
                u8bound = num(mg.group(1))
            elif p == 'size' and 'Uncommon16' in r:
                default16 = True
    if u8bound is None or not zero_err or not default16:
        raise ExtractError('TryFrom<u16> for BlockSize<u16>: expected `0 => Err`, `size if size <= N => Uncommon8`, `size => Uncommon16`')
    out.append(lean_pairs('blockSizeWriteFixed', tf, 'samples ↦ written code for the table sizes (`TryFrom<u16>` ∘ `to_writer`)'))
    out.append(f'def blockSizeU8Bound : Nat := {u8bound}\n')
    out.append(f'def blockSizeWriteU8 : Nat := {bs_write["Uncommon8"]}\n')
    out.append(f'def blockSizeWriteU16 : Nat := {bs_write["Uncommon16"]}\n')

    # ---- sample rate
    sr_read = read_codes(r'impl\s+FromBitStreamUsing\s+for\s+SampleRate<\(\)>', 'SampleRate<()>::from_reader', 4)
    sr_val = variant_values(r'impl\s+From<SampleRate<u32>>\s+for\s+u32', 'From<SampleRate<u32>> for u32')
    sr_write = write_codes(r'impl<R>\s+ToBitStream\s+for\s+SampleRate<R>', 'SampleRate::to_writer', 4)
    fixed = []; special = {}
    inval = []
    for c in range(16):
        e = sr_read[c]
        if e[0] == 'err':
            inval.append(c)
        elif e[1] in ('Streaminfo', 'KHz', 'Hz', 'DHz'):
            special.setdefault(e[1], []).append(c)
        else:
            fixed.append((c, sr_val[e[1]]))
    out.append(lean_pairs('sampleRateCodeFixed', fixed, 'sample-rate code ↦ Hz'))
    for k in ('Streaminfo', 'KHz', 'Hz', 'DHz'):
        out.append(lean_list('sampleRateCode' + k, special.get(k, [])))
    out.append(lean_list('sampleRateCodeInvalid', inval))
    # the payload reads: KHz = 8 bits * 1000, Hz = 16 bits, DHz = 16 bits * 10
    body = find_block(src, r'impl\s+FromBitStreamUsing\s+for\s+SampleRate<u32>', 'SampleRate<u32>::from_reader')
    pay = {}
    for p, r in arms(body, 'SampleRate<u32>::from_reader'):
        mk = re.search(r'SampleRate::(KHz|Hz|DHz)\(\(\)\)', p)
        if mk:
            mr = re.search(r'r\.read::<\s*(\d+)\s*,\s*\w+\s*>\(\)\?\s*(?:\*\s*(' + NUM + r'))?', r)
            if not mr:
                raise ExtractError(f'SampleRate<u32>::from_reader: arm {p} => {r}')
            pay[mk.group(1)] = (int(mr.group(1)), num(mr.group(2)) if mr.group(2) else 1)
    if sorted(pay) != ['DHz', 'Hz', 'KHz']:
        raise ExtractError('SampleRate<u32>::from_reader: KHz/Hz/DHz payload arms not found')
    for k in ('KHz', 'Hz', 'DHz'):
        out.append(f'def sampleRate{k}Bits : Nat := {pay[k][0]}\ndef sampleRate{k}Mul : Nat := {pay[k][1]}\n')
    body = find_block(src, r'impl\s+TryFrom<u32>\s+for\s+SampleRate<u32>', 'TryFrom<u32> for SampleRate<u32>')
    tf = []
    guards = []
    for p, r in arms(body, 'TryFrom<u32> for SampleRate<u32>'):
        if re.fullmatch(NUM, p):
            mo = re.match(r'Ok\(Self::(\w+)\)', r)
            tf.append((num(p), sr_write[mo.group(1)]))
        else:
            guards.append((p, r))
    expect = [
        (r'rate if \(rate % 1000\) == 0 && \(rate / 1000\) < u8::MAX as u32', 'KHz'),
        (r'rate if \(rate % 10\) == 0 && \(rate / 10\) < u16::MAX as u32', 'DHz'),
        (r'rate if rate < u16::MAX as u32', 'Hz'),
        (r'rate if rate < 1 << 20', 'Streaminfo'),
    ]
    if len(guards) < 4 or any(not re.fullmatch(e, g[0]) or v not in g[1] for (e, v), g in zip(expect, guards)):
        raise ExtractError('TryFrom<u32> for SampleRate<u32>: guard arms changed shape')
    out.append(lean_pairs('sampleRateWriteFixed', tf, 'Hz ↦ written code for the table rates'))
    for k in ('Streaminfo', 'KHz', 'Hz', 'DHz'):
        out.append(f'def sampleRateWrite{k} : Nat := {sr_write[k]}\n')

    # ---- channel assignment
    ca_body = find_block(src, r'impl\s+FromBitStream\s+for\s+ChannelAssignment', 'ChannelAssignment::from_reader')
    indep = {'Mono': 1, 'Stereo': 2}
    ib = find_block(src, r'pub\s+enum\s+Independent', 'enum Independent')
    for mm in re.finditer(r'(\w+)\s*=\s*(\d+)', ib):
        indep[mm.group(1)] = int(mm.group(2))
    ind = []; ls = []; sr_ = []; ms = []; inval = []
    for p, r in arms(ca_body, 'ChannelAssignment::from_reader'):
        rng = re.fullmatch(r'(' + NUM + r')(?:\s*\.\.=\s*(' + NUM + r'))?', p)
        if not rng:
            continue
        lo = num(rng.group(1)); hi = num(rng.group(2)) if rng.group(2) else lo
        for c in range(lo, hi + 1):
            mi = re.match(r'Ok\(Self::Independent\(Independent::(\w+)\)\)', r)
            if mi: ind.append((c, indep[mi.group(1)]))
            elif 'LeftSide' in r: ls.append(c)
            elif 'SideRight' in r: sr_.append(c)
            elif 'MidSide' in r: ms.append(c)
            elif r.startswith('Err'): inval.append(c)
    if sorted([c for c, _ in ind] + ls + sr_ + ms + inval) != list(range(16)):
        raise ExtractError('ChannelAssignment::from_reader: arms do not cover 16 codes')
    out.append(lean_pairs('chanCodeIndependent', ind, 'channel code ↦ independent channel count'))
    out.append(lean_list('chanCodeLeftSide', ls)); out.append(lean_list('chanCodeSideRight', sr_))
    out.append(lean_list('chanCodeMidSide', ms)); out.append(lean_list('chanCodeInvalid', inval))
    cw = write_codes(r'impl\s+ToBitStream\s+for\s+ChannelAssignment', 'ChannelAssignment::to_writer', 4)
    wind = []
    for k, v in cw.items():
        mi = re.match(r'Independent\(Independent::(\w+)\)', k)
        if mi: wind.append((indep[mi.group(1)], v))
    out.append(lean_pairs('chanWriteIndependent', sorted(wind), 'independent channel count ↦ written code'))
    out.append(f'def chanWriteLeftSide : Nat := {cw["LeftSide"]}\ndef chanWriteSideRight : Nat := {cw["SideRight"]}\ndef chanWriteMidSide : Nat := {cw["MidSide"]}\n')

    # ---- bits per sample
    bp_read = read_codes(r'impl\s+FromBitStreamUsing\s+for\s+BitsPerSample', 'BitsPerSample::from_reader', 3)
    bp_val = variant_values(r'impl\s+From<BitsPerSample>\s+for\s+u32', 'From<BitsPerSample> for u32')
    bp_write = write_codes(r'impl\s+ToBitStream\s+for\s+BitsPerSample', 'BitsPerSample::to_writer', 3)
    fixed = []; si = []; inval = []
    for c in range(8):
        e = bp_read[c]
        if e[0] == 'err': inval.append(c)
        elif e[1] == 'Streaminfo': si.append(c)
        else: fixed.append((c, bp_val[e[1]]))
    out.append(lean_pairs('bpsCodeFixed', fixed, 'bits-per-sample code ↦ bits'))
    out.append(lean_list('bpsCodeStreaminfo', si)); out.append(lean_list('bpsCodeInvalid', inval))
    out.append(lean_pairs('bpsWriteFixed', sorted((bp_val[k], v) for k, v in bp_write.items() if k in bp_val), 'bits ↦ written code'))
    out.append(f'def bpsWriteStreaminfo : Nat := {bp_write["Streaminfo"]}\n')

    # ---- subframe header type
    body = find_block(src, r'impl\s+FromBitStream\s+for\s+SubframeHeaderType', 'SubframeHeaderType::from_reader')
    sub = {}
    for p, r in arms(body, 'SubframeHeaderType::from_reader'):
        rng = re.fullmatch(r'(?:\w+\s*@\s*)?(' + NUM + r')(?:\s*\.\.=\s*(' + NUM + r'))?', p)
        if not rng:
            continue
        lo = num(rng.group(1)); hi = num(rng.group(2)) if rng.group(2) else lo
        if 'Constant' in r: sub['constant'] = (lo, hi, 0)
        elif 'Verbatim' in r: sub['verbatim'] = (lo, hi, 0)
        elif 'Fixed' in r:
            mo = re.search(r'order:\s*v\s*-\s*(' + NUM + r')', r)
            sub['fixed'] = (lo, hi, num(mo.group(1)))
        elif 'Lpc' in r:
            mo = re.search(r'NonZero::new\(\s*v\s*-\s*(' + NUM + r')\s*\)', r)
            sub['lpc'] = (lo, hi, num(mo.group(1)))
    if sorted(sub) != ['constant', 'fixed', 'lpc', 'verbatim']:
        raise ExtractError('SubframeHeaderType::from_reader: arms not found')
    for k in ('constant', 'verbatim'):
        out.append(f'def subType{k.capitalize()} : Nat := {sub[k][0]}\n')
    out.append(f'def subTypeFixedLo : Nat := {sub["fixed"][0]}\ndef subTypeFixedHi : Nat := {sub["fixed"][1]}\ndef subTypeFixedBase : Nat := {sub["fixed"][2]}\n')
    out.append(f'def subTypeLpcLo : Nat := {sub["lpc"][0]}\ndef subTypeLpcHi : Nat := {sub["lpc"][1]}\ndef subTypeLpcBase : Nat := {sub["lpc"][2]}\n')
    m = re.search(r'FIXED_COEFFS\s*:\s*\[&\[i64\];\s*5\]\s*=\s*\[(.*?)\];', src, flags=re.S)
    if not m:
        raise ExtractError('SubframeHeaderType::FIXED_COEFFS not found')
    rows = re.findall(r'&\[([^\]]*)\]', m.group(1))
    if len(rows) != 5:
        raise ExtractError('FIXED_COEFFS: expected 5 rows')
    out.append('def fixedCoeffs : List (List Int) := [' + ', '.join('[' + ', '.join(x.strip() for x in r.split(',') if x.strip()) + ']' for r in rows) + ']\n')
    m = re.search(r'const\s+SYNC_CODE\s*:\s*u32\s*=\s*(' + NUM + r')\s*;', src)
    if not m: raise ExtractError('FrameHeader::SYNC_CODE not found')
    out.append(f'def syncCode15 : Nat := {num(m.group(1))}\n')
    m = re.search(r'const\s+MAX_FRAME_NUMBER\s*:\s*u64\s*=\s*\(1\s*<<\s*(\d+)\)\s*-\s*1\s*;', src)
    if not m: raise ExtractError('FrameNumber::MAX_FRAME_NUMBER not found')
    out.append(f'def maxFrameNumber : Nat := 2 ^ {m.group(1)} - 1\n')
    out.append('end Flac.Gen')
    return '\n'.join(out) + '\n'

GENERATORS = [
    ('Crc.lean', 'crc.rs CRC tables and update', gen_crc),
    ('Tables.lean', 'stream.rs header code tables', gen_tables),
]

def main():
    ap = argparse.ArgumentParser()
    ap.add_argument('--repo', default='/repo')
    ap.add_argument('--out', default=os.path.join(os.path.dirname(os.path.abspath(__file__)), '..', 'lean', 'FlacModel', 'Gen'))
    ap.add_argument('--report', default=None)
    a = ap.parse_args()
    os.makedirs(a.out, exist_ok=True)
    report = {'generated': [], 'failed': []}
    for fname, what, fn in GENERATORS:
        path = os.path.join(a.out, fname)
        try:
            text = fn(a.repo)
        except ExtractError as e:
            report['failed'].append({'file': fname, 'item': what, 'error': str(e)})
            continue
        except Exception as e:  # shape so different that the extractor itself tripped
            report['failed'].append({'file': fname, 'item': what, 'error': f'{type(e).__name__}: {e}'})
            continue
        old = open(path).read() if os.path.exists(path) else None
        if old != text:
            with open(path, 'w') as f:
                f.write(text)
        report['generated'].append({'file': fname, 'changed': old != text})
    if a.report:
        json.dump(report, open(a.report, 'w'), indent=1)
    for f in report['failed']:
        print(f"translator:{f['file']}: {f['error']}", file=sys.stderr)
    return 1 if report['failed'] else 0

if __name__ == '__main__':
    sys.exit(main())
