"""
props.py — per-property definitions: the theorems that decide the property (module + names, audited
with `#print axioms`), and the correspondence components (generator, profiles, property-level
oracle on the implementation's outcome).
"""
import gen
from vlib import parse_case, parse_outcome, ints

COMMON_TRUST = [
    'Lean 4.33.0 kernel; axioms limited to propext, Classical.choice, Quot.sound (checked by #print axioms on every listed theorem)',
    'tools/translate.py (syntactic extraction of tables/constants from the Rust source into Gen/*.lean)',
    'the correspondence harness (harness/, public API of the crate only) and the driver canonicalisation',
    'modelled, not verified: bitstream-io 4.10 bit readers/writers, md5 0.8, std::io adaptors, the allocator, the OS',
]

class Component:
    name = 'base'
    ops = ()
    profiles = ('release',)
    model = True
    ignore = ()
    features = None
    def budget(self, tier, boost, quick, thorough):
        return (quick if tier == 'quick' else thorough) * boost
    def cases(self, rng, tier, boost):
        return []
    def oracle(self, case, impl, profile):
        return None
    def nontrivial(self, case, impl):
        return impl.startswith('ok')
    def classify(self, case, impl):
        return [impl.split()[0] if impl else 'empty']

def panic_sig(comp, impl):
    h, cls, f = parse_outcome(impl)
    return f'{comp}:panic:{cls}'

# ------------------------------------------------------------------------------------------------
# C16 — raw frame streams
# ------------------------------------------------------------------------------------------------
class StreamRW(Component):
    name = 'streamrw'
    ops = ('streamrw',)
    profiles = ('release',)
    def cases(self, rng, tier, boost):
        n = self.budget(tier, boost, 400, 20000)
        out = []
        for i in range(n):
            nf = rng.choice([1, 1, 2, 3, 4, 6])
            f = {}
            f.update(gen.option_fields(rng))
            f['nf'] = nf
            fixed = rng.random() < 0.3
            rate0, ch0, bps0 = rng.choice(gen.SUBSET_RATES), rng.randint(1, 8), rng.choice(gen.SUBSET_BPS)
            for k in range(nf):
                rate, ch, bps = (rate0, ch0, bps0) if fixed else (rng.choice(gen.SUBSET_RATES), rng.choice([1, 2, 2, 2, 3, 6, 8]), rng.choice(gen.SUBSET_BPS))
                ln = rng.choice([1, 2, 3, 4, 5, 8, 15, 16, 17, 31, 32, 33, 40, 64, 100, 192, 256, 257, 576])
                if tier == 'quick' and ln * ch > 600:
                    ln = max(1, 600 // ch)
                pcm, _ = gen.pcm_multi(rng, ln, ch, bps)
                f[f'f{k}'] = f'{rate}:{ch}:{bps}:{gen.join(pcm)}'
            mode = rng.choice(['clean', 'clean', 'syncfree', 'syncfree', 'sync'])
            f['mode'] = mode
            if mode != 'clean':
                for k in range(nf + 1):
                    if rng.random() < 0.7:
                        f[f'g{k}'] = gen.rand_garbage(rng, rng.randint(1, 40), mode == 'syncfree')
            else:
                f['lens'] = '1'
            r = rng.random()
            if r < 0.3:
                f['max'] = rng.choice([1, 2, 3, 7])
            elif r < 0.6:
                f['seg'] = gen.join(sorted(set(rng.randint(0, 400) for _ in range(rng.randint(1, 12)))))
            out.append('streamrw ' + gen.fields_str(f))
        return out
    def written(self, cf):
        fr = []
        for k in range(int(cf.get('nf', '0'))):
            rate, ch, bps, pcm = cf[f'f{k}'].split(':', 3)
            fr.append(f'F/{rate}/{ch}/{bps}/{pcm}')
        return fr
    def oracle(self, case, impl, profile):
        op, cf = parse_case(case)
        h, cls, f = parse_outcome(impl)
        if h == 'panic':
            return (panic_sig(self.name, impl), 'stream writer/reader panicked: ' + cls)
        if h != 'ok':
            return (f'{self.name}:writer-refused:{cls}', 'FlacStreamWriter refused a subset-legal frame: ' + impl[:200])
        seq = f.get('seq', '').split(';')
        got = [x for x in seq if x.startswith('F/')]
        errs = [x for x in seq if x.startswith('E/')]
        written = self.written(cf)
        # no fabrication: returned frames are a subsequence of the written frames, in order
        j = 0
        for g in got:
            while j < len(written) and written[j] != g:
                j += 1
            if j == len(written):
                return (f'{self.name}:fabricated-frame', 'the stream reader returned a frame that was not written (or out of order)')
            j += 1
        if cf.get('mode') in ('clean', 'syncfree'):
            if got != written:
                return (f'{self.name}:lost-frame-{cf.get("mode")}', f'{len(written)} frames written, {len(got)} returned although the garbage contains no 0xFF byte')
            if errs != ['E/Io(UnexpectedEof)']:
                return (f'{self.name}:spurious-error-{cf.get("mode")}', f'errors {errs} on a stream without sync-like garbage')
        return None
    def nontrivial(self, case, impl):
        return impl.startswith('ok') and ';' in impl
    def classify(self, case, impl):
        op, cf = parse_case(case)
        return ['mode=' + cf.get('mode', '?'), 'nf=' + cf.get('nf', '?'), 'seg=' + ('max' if 'max' in cf else 'seg' if 'seg' in cf else 'none')]

class StreamRead(Component):
    """arbitrary / mutated bytes into the stream reader: model agreement + no panic"""
    name = 'streamread'
    ops = ('streamread',)
    profiles = ('release', 'checked')
    def cases(self, rng, tier, boost):
        n = self.budget(tier, boost, 300, 20000)
        out = []
        for i in range(n):
            ln = rng.randint(0, 120)
            b = bytearray(rng.randint(0, 255) for _ in range(ln))
            for _ in range(rng.randint(0, 3)):
                if ln >= 2:
                    k = rng.randint(0, ln - 2)
                    b[k] = 0xFF; b[k + 1] = rng.choice([0xF8, 0xF9])
            out.append(f'streamread bytes={bytes(b).hex()}')
        return out
    def oracle(self, case, impl, profile):
        h, cls, f = parse_outcome(impl)
        if h == 'panic':
            return (panic_sig(self.name, impl), 'stream reader panicked on arbitrary bytes: ' + cls)
        return None
    def nontrivial(self, case, impl):
        return 'E/' in impl and impl.count(';') >= 1

PROPS = {}
NOT_YET = {}

PROPS['C16'] = dict(
    module='FlacModel.Props.C16',
    theorems=['Flac.C16.stream_no_fabrication', 'Flac.C16.stream_results_ascending', 'Flac.C16.no_sync_no_loss_partial',
              'Flac.C16.skipUntilFF_no_ff'],
    components=[StreamRW(), StreamRead()],
    rule='streamrw: 1-6 frames with independently drawn rate/channels/depth/length written by one FlacStreamWriter, '
         'garbage (none / 0xFF-free / with planted FF F8|F9) between them, source segmented (max-N reads or random split points), '
         'read back by FlacStreamReader and by the Lean model of it; non-trivial = at least two results in the sequence; '
         'streamread: random bytes with planted sync codes in both build profiles',
    claim='Theorems over the model of FlacStreamReader::read, for arbitrary (unbounded) input bytes: stream_no_fabrication (every returned frame is the '
          'checksum-valid decoding of a contiguous input range that starts at FF F8|F9; the rest is what follows it), stream_results_ascending, '
          'no_sync_no_loss_partial (0xFF-free garbage costs no frame, given that the written frame decodes - C01). The model is tied to the code on '
          'every run by generated frame sequences with garbage and source segmentations, compared result by result.',
    note='Trusted: Lean kernel, translate.py, harness. Segmentation independence holds of the model by construction and is only exhibited for the '
         'implementation; bitstream-io/BufRead are modelled, not verified.',
    trusted_base=COMMON_TRUST,
    assumptions=['segmentation independence is a property of the model by construction (the model never sees the split points); '
                 'for the implementation it is exhibited by the correspondence over generated segmentations, not proved',
                 'no_sync_no_loss carries the hypothesis that each written frame decodes (C01) and begins FF F8|F9'],
)
