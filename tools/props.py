"""
props.py — per-property definitions: the theorems that decide the property (module + names, audited
with `#print axioms`), and the correspondence components (generator, profiles, property-level
oracle on the implementation's outcome).
"""
import gen, hashlib
from vlib import parse_case, parse_outcome, ints

COMMON_TRUST = [
    'Lean 4.33.0 kernel; axioms limited to propext, Classical.choice, Quot.sound (checked by #print axioms on every listed theorem)',
    'tools/translate.py (syntactic extraction of tables/constants from the Rust source into Gen/*.lean)',
    'the correspondence harness (harness/, public API of the crate only) and the driver canonicalisation',
    'modelled, not verified: bitstream-io 4.10 bit readers/writers, md5 0.8, std::io adaptors, the allocator, the OS',
]

class Component:
    name = 'base'
    ops = ()
    profiles = ('release',)
    model = True
    ignore = ()
    features = None
    def budget(self, tier, boost, quick, thorough):
        return (quick if tier == 'quick' else thorough) * boost
    def cases(self, rng, tier, boost):
        return []
    def oracle(self, case, impl, profile):
        return None
    def nontrivial(self, case, impl):
        return impl.startswith('ok')
    def classify(self, case, impl):
        return [impl.split()[0] if impl else 'empty']

def panic_sig(comp, impl):
    h, cls, f = parse_outcome(impl)
    return f'{comp}:panic:{cls}'

# ------------------------------------------------------------------------------------------------
# C16 — raw frame streams
# ------------------------------------------------------------------------------------------------
class StreamRW(Component):
    name = 'streamrw'
    ops = ('streamrw',)
    profiles = ('release',)
    def cases(self, rng, tier, boost):
        n = self.budget(tier, boost, 400, 20000)
        out = []
        for i in range(n):
            nf = rng.choice([1, 1, 2, 3, 4, 6])
            f = {}
            f.update(gen.option_fields(rng))
            f['nf'] = nf
            fixed = rng.random() < 0.3
            rate0, ch0, bps0 = rng.choice(gen.SUBSET_RATES), rng.randint(1, 8), rng.choice(gen.SUBSET_BPS)
            for k in range(nf):
                rate, ch, bps = (rate0, ch0, bps0) if fixed else (rng.choice(gen.SUBSET_RATES), rng.choice([1, 2, 2, 2, 3, 6, 8]), rng.choice(gen.SUBSET_BPS))
                ln = rng.choice([1, 2, 3, 4, 5, 8, 15, 16, 17, 31, 32, 33, 40, 64, 100, 192, 256, 257, 576])
                if tier == 'quick' and ln * ch > 600:
                    ln = max(1, 600 // ch)
                pcm, _ = gen.pcm_multi(rng, ln, ch, bps)
                f[f'f{k}'] = f'{rate}:{ch}:{bps}:{gen.join(pcm)}'
            mode = rng.choice(['clean', 'clean', 'syncfree', 'syncfree', 'sync'])
            f['mode'] = mode
            if mode != 'clean':
                for k in range(nf + 1):
                    if rng.random() < 0.7:
                        f[f'g{k}'] = gen.rand_garbage(rng, rng.randint(1, 40), mode == 'syncfree')
            else:
                f['lens'] = '1'
            r = rng.random()
            if r < 0.3:
                f['max'] = rng.choice([1, 2, 3, 7])
            elif r < 0.6:
                f['seg'] = gen.join(sorted(set(rng.randint(0, 400) for _ in range(rng.randint(1, 12)))))
            out.append('streamrw ' + gen.fields_str(f))
        # a frame holds at most 65535 samples per channel (16-bit block size field): longer writes must be refused
        # (an EMPTY write panics in audio.rs chunks_exact_mut(0) instead of returning InvalidBlockSize: no frame is emitted, so this is
        #  outside C16 and not generated here; recorded in DESIGN.md as an observation outside the listed properties)
        for ch, ln in [(1, 65535), (1, 65536), (1, 65537), (2, 65536 + 192), (1, 70000), (1, 131072 + 16), (2, 65535)]:
            for prev in (0, 1):
                f = dict(gen.option_fields(rng))
                f['nf'] = prev + 1
                if prev:
                    f['f0'] = '44100:1:16:1,2,3,4'
                f[f'f{prev}'] = f'44100:{ch}:8:3*{ln * ch}' if ln else f'44100:{ch}:8:-'
                f['mode'] = 'clean'; f['lens'] = '1'
                if ln > 65535 or ln == 0:
                    f['expect'] = 'refuse'
                out.append('streamrw ' + gen.fields_str(f))
        # parameters no frame header can carry by itself (rates outside the table and the 8/16-bit fields, depths without a code):
        # the write must be refused, or - if it is accepted - the frame must still come back from its own header
        for rate, bps in [(768000, 16), (705600, 24), (65537, 16), (655351, 16), (655360, 16), (1048575, 16), (256000, 16), (255001, 8),
                          (44100, 10), (44100, 7), (44100, 17), (44100, 21), (96000, 31), (44100, 1)]:
            for prev in (0, 1):
                f = dict(gen.option_fields(rng))
                f['nf'] = prev + 1 + 1
                if prev:
                    f['f0'] = '44100:1:16:1,2,3,4'
                pcm, _ = gen.pcm_multi(rng, 24, 2, bps)
                f[f'f{prev}'] = f'{rate}:2:{bps}:{gen.join(pcm)}'
                f[f'f{prev + 1}'] = '48000:1:16:5,6,7,8,9'
                f['mode'] = 'clean'; f['lens'] = '1'
                f['expect'] = 'refuse-or-readable'
                out.append('streamrw ' + gen.fields_str(f))
        return out
    def expand(self, pcm):
        if '*' not in pcm:
            return pcm
        out = []
        for t in pcm.split(','):
            v, _, n = t.partition('*')
            out += [v] * (int(n) if n else 1)
        return ','.join(out)
    def written(self, cf):
        fr = []
        for k in range(int(cf.get('nf', '0'))):
            rate, ch, bps, pcm = cf[f'f{k}'].split(':', 3)
            fr.append(f'F/{rate}/{ch}/{bps}/{self.expand(pcm)}')
        return fr
    def oracle(self, case, impl, profile):
        op, cf = parse_case(case)
        h, cls, f = parse_outcome(impl)
        if h == 'panic':
            return (panic_sig(self.name, impl), 'stream writer/reader panicked: ' + cls)
        if cf.get('expect') == 'refuse':
            if h == 'err' and cls == 'InvalidBlockSize':
                return None
            return (f'{self.name}:oversize-accepted', 'FlacStreamWriter did not refuse (InvalidBlockSize) a write whose length no frame header can hold: ' + impl[:120])
        if h != 'ok' and cf.get('expect') == 'refuse-or-readable':
            if h == 'err' and 'frame' in f:
                return None          # the writer refused it
            return (f'{self.name}:accepted-frame-not-self-describing', 'FlacStreamWriter accepted parameters that no frame header can carry, and the frame it wrote cannot be read from its own header: ' + impl[:120])
        if h != 'ok':
            return (f'{self.name}:writer-refused:{cls}', 'FlacStreamWriter refused a subset-legal frame: ' + impl[:200])
        seq = f.get('seq', '').split(';')
        got = [x for x in seq if x.startswith('F/')]
        errs = [x for x in seq if x.startswith('E/')]
        written = self.written(cf)
        # no fabrication: returned frames are a subsequence of the written frames, in order
        j = 0
        for g in got:
            while j < len(written) and written[j] != g:
                j += 1
            if j == len(written):
                return (f'{self.name}:fabricated-frame', 'the stream reader returned a frame that was not written (or out of order)')
            j += 1
        if cf.get('mode') in ('clean', 'syncfree'):
            if got != written:
                return (f'{self.name}:lost-frame-{cf.get("mode")}', f'{len(written)} frames written, {len(got)} returned although the garbage contains no 0xFF byte')
            if errs != ['E/Io(UnexpectedEof)']:
                return (f'{self.name}:spurious-error-{cf.get("mode")}', f'errors {errs} on a stream without sync-like garbage')
        return None
    def nontrivial(self, case, impl):
        return impl.startswith('ok') and ';' in impl
    def classify(self, case, impl):
        op, cf = parse_case(case)
        return ['mode=' + cf.get('mode', '?'), 'nf=' + cf.get('nf', '?'), 'seg=' + ('max' if 'max' in cf else 'seg' if 'seg' in cf else 'none')]

class StreamRead(Component):
    """arbitrary / mutated bytes into the stream reader: model agreement + no panic"""
    name = 'streamread'
    ops = ('streamread',)
    profiles = ('release', 'checked')
    def cases(self, rng, tier, boost):
        n = self.budget(tier, boost, 300, 20000)
        out = []
        for i in range(n):
            ln = rng.randint(0, 120)
            b = bytearray(rng.randint(0, 255) for _ in range(ln))
            for _ in range(rng.randint(0, 3)):
                if ln >= 2:
                    k = rng.randint(0, ln - 2)
                    b[k] = 0xFF; b[k + 1] = rng.choice([0xF8, 0xF9])
            out.append(f'streamread bytes={bytes(b).hex()}')
        return out
    def oracle(self, case, impl, profile):
        h, cls, f = parse_outcome(impl)
        if h == 'panic':
            return (panic_sig(self.name, impl), 'stream reader panicked on arbitrary bytes: ' + cls)
        return None
    def nontrivial(self, case, impl):
        return 'E/' in impl and impl.count(';') >= 1

# ------------------------------------------------------------------------------------------------
# C01 / C02 / C19 — raw frames through the real encoder
# ------------------------------------------------------------------------------------------------
def frame_bound_bytes(n, ch, bps):
    bits = 0
    for i in range(ch):
        b = bps + (1 if (ch == 2 and i == 1) else 0)
        bits += 8 + 33 + n * b
    return 16 + (bits + 7) // 8 + 2

class EncFrame(Component):
    """one frame through FlacStreamWriter::write; decoded again by the crate (C01), by the Lean model
    of the crate's decoder, and by the independent L0 decoder (C02); size checked against C19's bound"""
    name = 'encframe'
    ops = ('encframe',)
    profiles = ('release',)
    def __init__(self, focus='all'):
        self.focus = focus
    def one(self, rng, n, ch, bps, shape=None, opts=None, rate=None, num=None):
        pcm, shape = gen.pcm_multi(rng, n, ch, bps, shape)
        f = dict(opts if opts is not None else gen.option_fields(rng))
        f['rate'] = rate or rng.choice(gen.SUBSET_RATES)
        f['ch'] = ch; f['bps'] = bps
        if num:
            f['n'] = num
        f['shape'] = shape
        f['pcm'] = gen.join(pcm)
        return 'encframe ' + gen.fields_str(f)
    def cases(self, rng, tier, boost):
        out = []
        # exhaustive short lengths x shapes (mono and stereo), a few option sets
        optsets = [{}, {'lpc': 'none'}, {'lpc': '32', 'po': '15'}, {'lpc': '1', 'po': '0'}, {'lpc': '12', 'po': '8', 'exh': '0'}, {'lpc': '2', 'ms': '0', 'win': 'rect'}]
        maxlen = 48 if tier == 'quick' else 96
        shapes = gen.SHAPES
        for n in range(1, maxlen + 1):
            for si, sh in enumerate(shapes):
                if tier == 'quick' and (n + si) % 3 != 0 and n > 8:
                    continue
                o = optsets[(n + si) % len(optsets)]
                bps = gen.SUBSET_BPS[(n * 7 + si) % len(gen.SUBSET_BPS)]
                out.append(self.one(rng, n, 1, bps, sh, o, 44100))
                out.append(self.one(rng, n, 2, bps, sh, o, 48000))
        # 32-bit extremes: residuals at the edge of the 32-bit range
        for n in range(2, 26):
            for sh in ('edge', 'noise', 'alt'):
                out.append(self.one(rng, n, 1, 32, sh, optsets[n % len(optsets)], 96000))
        # one large step in a 32-/24-bit channel: the LPC prediction right behind the step lies outside the sample range
        # (for 32-bit audio outside i32: a prediction truncated before the subtraction encodes the sample + k * 2^32)
        for bps in (32, 24):
            hi = (1 << (bps - 1)) - 1; lo = -(1 << (bps - 1))
            for (a, b) in ((lo * 72 // 100, hi * 9 // 10), (hi, lo), (lo + 5, hi - 7), (hi * 3 // 4, lo * 3 // 4), (-1553219575 >> (32 - bps), 1939558944 >> (32 - bps))):
                for k in (1, 2, 3, 7):
                    for n in (8, 24):
                        for o in ({}, {'lpc': '2'}, {'lpc': '8', 'win': 'rect'}):
                            f = dict(o); f['rate'] = 44100; f['ch'] = 1; f['bps'] = bps; f['shape'] = 'bigstep'
                            f['pcm'] = gen.join([a] * k + [b] * (n - k))
                            out.append('encframe ' + gen.fields_str(f))
        # incompressible blocks long enough for any expansion to outgrow the per-subframe allowance, with and without LPC
        for sh in ('noise', 'alt', 'edge', 'sticky1w'):
            for n in (256, 1024) + ((4096,) if tier == 'thorough' else ()):
                for bps in (8, 16, 24, 32):
                    for o in ({'lpc': 'none'}, {'lpc': 'none', 'po': '0'}, {}, {'lpc': '1', 'po': '0', 'ms': '0'}):
                        out.append(self.one(rng, n, 1, bps, sh, o, 44100))
                        out.append(self.one(rng, n, 2, bps, sh, o, 44100))
        # signals on which the maximal predictor order wins (subframe type code 111111 and its neighbours on the wire)
        for n in (200, 600) + ((1152, 4096) if tier == 'thorough' else ()):
            for bps in (16, 24):
                for o in ({'lpc': '32'}, {'lpc': '32', 'po': '0', 'win': 'rect'}, {'lpc': '31'}):
                    out.append(self.one(rng, n, 1, bps, 'period32', o, 44100))
                    out.append(self.one(rng, n, 2, bps, 'period32', o, 48000))
        nrand = self.budget(tier, boost, 600, 40000)
        for i in range(nrand):
            ch = rng.choice([1, 1, 2, 2, 2, 3, 4, 5, 6, 7, 8])
            bps = rng.choice(gen.SUBSET_BPS)
            n = rng.choice([1, 2, 3, 4, 5, 6, 7, 8, 9, 15, 16, 17, 31, 32, 33, 63, 64, 65, 100, 128, 192, 255, 256, 257, 576, 1000, 1152])
            if tier == 'quick' and n * ch > 1200:
                n = max(1, 1200 // ch)
            if tier == 'thorough' and rng.random() < 0.002:
                # the list-based model needs seconds per frame of this size: a few dozen per run
                n = rng.choice([4096, 4608, 16384, 65535 if ch <= 2 else 8192])
            out.append(self.one(rng, n, ch, bps, None, None, None, rng.choice([0, 0, 0, 1, 2, 3]) if n * ch < 300 else 0))
        return out
    def oracle(self, case, impl, profile):
        op, cf = parse_case(case)
        h, cls, f = parse_outcome(impl)
        if h == 'panic':
            return (panic_sig(self.name, impl), 'the encoder panicked: ' + cls)
        if h != 'ok':
            return (f'{self.name}:encode-failed:{cls}', 'encoding a legal block failed: ' + impl[:200])
        ch, bps = int(cf['ch']), int(cf['bps'])
        if self.focus in ('all', 'roundtrip'):
            if f.get('dec') != cf['pcm']:
                return (f'{self.name}:roundtrip-mismatch', 'decoding the frame does not return the samples that were written: dec=' + f.get('dec', '')[:120])
            if (f.get('drate'), f.get('dch'), f.get('dbps')) != (cf['rate'], cf['ch'], cf['bps']):
                return (f'{self.name}:parameter-mismatch', 'decoded rate/channels/depth differ from what was written')
        if self.focus in ('all', 'size'):
            n = len(ints(cf['pcm'])) // ch
            size = len(f.get('bytes', '')) // 2
            if size > frame_bound_bytes(n, ch, bps):
                return (f'{self.name}:expands-beyond-verbatim', f'frame of {size} bytes exceeds verbatim bound {frame_bound_bytes(n, ch, bps)} ({n} x {ch} x {bps})')
            if cf.get('shape') in ('zeros', 'const') and self.all_const(cf, ch) and size > 16 + 2 + ch * 12:
                return (f'{self.name}:constant-block-large', f'a block of constant samples costs {size} bytes for {ch} channel(s)')
        return None
    def all_const(self, cf, ch):
        x = ints(cf['pcm'])
        return all(len(set(x[c::ch])) == 1 for c in range(ch))
    def nontrivial(self, case, impl):
        return impl.startswith('ok') and len(case) > 60
    def classify(self, case, impl):
        op, cf = parse_case(case)
        h, cls, f = parse_outcome(impl)
        sub = 'sub?'
        return ['shape=' + cf.get('shape', '?'), 'ch=' + cf.get('ch', '?'), 'bps=' + cf.get('bps', '?'), 'lpc=' + cf.get('lpc', 'default')]

class RoundTripFile(Component):
    """whole files: 3 writer front-ends x 4 reader front-ends (+ verify), PCM must come back exactly"""
    name = 'rtfile'
    ops = ('rt',)
    profiles = ('release',)
    model = False
    def cases(self, rng, tier, boost):
        out = []
        n = self.budget(tier, boost, 500, 30000)
        for i in range(n):
            ch = rng.choice([1, 1, 2, 2, 2, 3, 4, 6, 8])
            bps = rng.choice([4, 5, 7, 8, 9, 12, 15, 16, 17, 20, 23, 24, 25, 31, 32]) if rng.random() < 0.7 else rng.randint(4, 32)
            bs = rng.choice([16, 17, 18, 20, 32, 33, 64, 100, 192, 256, 576, 4096])
            frames = rng.choice([1, 2, 3, 5, 8, 15, 16, 17, 18, 31, 33, 40, 64, 65, 100, 200, 300])
            if rng.random() < 0.3:
                frames = bs * rng.randint(1, 3) + rng.choice([0, 1, 2, 3, 5, 8])
            if tier == 'quick' and frames * ch > 900:
                frames = max(1, 900 // ch)
            pcm, shape = gen.pcm_multi(rng, frames, ch, bps)
            f = gen.option_fields(rng)
            f.update({'fe': rng.choice(['byte', 'sample', 'chan']), 'reader': rng.choice(['byte', 'sample', 'iter', 'chan']),
                      'endian': rng.choice(['le', 'be']), 'rate': rng.choice([8000, 44100, 48000, 96000, 1, 655350, 1048575, 12345, 37800, 18900, 254900, 300]),
                      'ch': ch, 'bps': bps, 'bs': bs, 'pad': rng.choice([0, 0, 16, 100]),
                      'seek': rng.choice(['off', 'default', 'frames:1', 'frames:3', 'secs:1']),
                      'shape': shape})
            unit = {'byte': ch * ((bps + 7) // 8), 'sample': ch, 'chan': 1}[f['fe']]
            if rng.random() < 0.5:
                f['total'] = frames * unit
            total_units = frames * unit if f['fe'] != 'chan' else frames
            k = rng.randint(0, 4)
            f['chunks'] = gen.join(sorted(rng.randint(1, max(1, total_units)) for _ in range(k))) if False else gen.join([rng.randint(1, max(1, total_units // 2 + 1)) for _ in range(k)])
            f['chunk'] = rng.choice([1, 3, 7, 64, 4096])
            f['pcm'] = gen.join(pcm)
            out.append('rt ' + gen.fields_str(f))
        return out
    def oracle(self, case, impl, profile):
        op, cf = parse_case(case)
        h, cls, f = parse_outcome(impl)
        if h == 'panic':
            return (panic_sig(self.name, impl), 'writer or reader panicked: ' + cls)
        if h != 'ok':
            return (f'{self.name}:failed:{cls}', 'a legal file could not be written/read: ' + impl[:200])
        ch, bps = int(cf['ch']), int(cf['bps'])
        want = ints(cf['pcm'])
        if 'bytes' in f:
            bpsb = (bps + 7) // 8
            raw = bytes.fromhex(f['bytes'])
            got = []
            for i in range(0, len(raw) - bpsb + 1, bpsb):
                chunk = raw[i:i + bpsb]
                got.append(int.from_bytes(chunk, 'big' if cf.get('endian') == 'be' else 'little', signed=True))
            if len(raw) % bpsb:
                got.append(None)
        else:
            got = ints(f.get('pcm', '-'))
        if got != want:
            return (f'{self.name}:pcm-mismatch:{cf["fe"]}->{cf["reader"]}', f'PCM read back differs from PCM written ({len(got)} vs {len(want)} samples)')
        if (f.get('rate'), f.get('ch'), f.get('bps')) != (cf['rate'], cf['ch'], cf['bps']):
            return (f'{self.name}:parameter-mismatch', 'rate/channels/depth differ')
        if f.get('total') != str(len(want) // ch):
            return (f'{self.name}:total-mismatch', f'STREAMINFO total {f.get("total")} != {len(want)//ch}')
        if 'MD5Match' not in f.get('verify', ''):
            return (f'{self.name}:md5-verify', 'verify_reader does not report MD5Match: ' + f.get('verify', ''))
        return None
    def classify(self, case, impl):
        op, cf = parse_case(case)
        return [f'fe={cf.get("fe")}', f'reader={cf.get("reader")}', f'bps={cf.get("bps")}', f'ch={cf.get("ch")}']

# ------------------------------------------------------------------------------------------------
# C06 / C07 — operation histories on the reader front-ends
# ------------------------------------------------------------------------------------------------
import vlib as _vlib

def pcm_bytes(pcm, bps, be):
    n = (bps + 7) // 8
    out = bytearray()
    for s in pcm:
        out += int(s).to_bytes(n, 'big' if be else 'little', signed=True)
    return bytes(out)

class ReaderHist(Component):
    """files written by the real encoder (non-periodic data, every seek-table policy), then random
    histories of read/fill/consume/next/seek on each reader; judged against an ideal cursor over the PCM"""
    ops = ('hist',)
    profiles = ('release',)
    def __init__(self, mode):
        self.mode = mode             # 'seek' (C06) or 'noseek' (C07)
        self.name = 'hist-' + mode
    def make_files(self, rng, nfiles, tier):
        cases = []; metas = []
        for i in range(nfiles):
            ch = rng.choice([1, 2, 2, 3, 4, 8]) if i % 4 else rng.randint(1, 8)
            bps = rng.choice([8, 16, 24, 32, 12, 20, 4, 17])
            bs = rng.choice([16, 16, 20, 32, 64])
            nblocks = rng.randint(1, 7)
            frames = bs * nblocks + rng.choice([0, 0, 1, 5, bs - 1])
            pcm, _ = gen.pcm_multi(rng, frames, ch, bps, 'noise' if bps > 4 else 'edge')
            rate = rng.choice([44100, 48000, 16, 40, 100])
            seek = rng.choice(['off', 'frames:1', 'frames:2', 'frames:3', 'secs:1', 'default'])
            total = rng.random() < 0.6
            f = {'fe': 'sample', 'rate': rate, 'ch': ch, 'bps': bps, 'bs': bs, 'seek': seek, 'pad': rng.choice([0, 40]),
                 'lpc': rng.choice(['none', '2', '8'])}
            if total:
                f['total'] = frames * ch
            f['pcm'] = gen.join(pcm)
            cases.append('wr ' + gen.fields_str(f))
            metas.append({'ch': ch, 'bps': bps, 'bs': bs, 'frames': frames, 'pcm': pcm, 'seek': seek, 'total': total, 'rate': rate})
        outs, herr = _vlib.run_harness('release', cases)
        files = []
        for m, o in zip(metas, outs):
            h, cls, f = parse_outcome(o)
            if h == 'ok' and 'file' in f:
                m['file'] = f['file']
                files.append(m)
        return files
    def history(self, rng, m, reader, nops):
        ch, bps, bs, frames = m['ch'], m['bps'], m['bs'], m['frames']
        unit = {'byte': ch * ((bps + 7) // 8), 'sample': ch, 'iter': ch, 'chan': 1}[reader]
        total_units = frames * unit
        ops = []
        def target():
            r = rng.random()
            fb = bs * unit
            if r < 0.15: return 0
            if r < 0.45: return max(0, rng.randint(0, frames // bs + 1) * fb + rng.choice([-1, 0, 1]) * (1 if reader == 'byte' else unit if reader != 'chan' else 1))
            if r < 0.6: return total_units + rng.choice([-1, 0, 1, 2, 1000])
            if r < 0.65: return 10 ** 12
            return rng.randint(0, total_units)
        for k in range(nops):
            r = rng.random()
            if reader == 'iter':
                ops.append('x'); continue
            if self.mode == 'seek' and r < 0.3:
                if reader == 'byte':
                    kind = rng.choice(['S', 'S', 'C', 'E'])
                    if kind == 'S': ops.append(f'sS{max(0, target())}')
                    elif kind == 'C': ops.append(f'sC{rng.choice([0, 1, -1, unit, -unit, bs * unit, -bs * unit, rng.randint(-total_units, total_units), 10**9])}')
                    else: ops.append(f'sE{rng.choice([0, -1, -unit, -bs * unit, -rng.randint(0, total_units), -total_units, -total_units - 1, 1, 5])}')
                else:
                    t = target()
                    ops.append(f'ss{max(0, t // (unit if reader == "sample" else 1))}')
            elif r < 0.6 and reader != 'chan':
                ops.append(f'r{rng.choice([1, 2, 3, unit, unit + 1, 7, bs * unit, bs * unit + 1, 3 * bs * unit, 10 ** 6 if rng.random() < 0.1 else 5])}')
            elif r < 0.8:
                ops.append('f')
            else:
                ops.append(f'c{rng.choice([0, 1, 2, unit, bs * unit // 2, bs * unit, 10 ** 6])}')
        if self.mode == 'noseek':
            # drain and poll after the end
            if reader == 'iter':
                ops += ['x'] * (total_units + 3)
            elif reader == 'chan':
                ops += ['f', 'c1000000'] * (frames // bs + 3) + ['f', 'f']
            else:
                ops += [f'r{bs * unit}'] * (frames // bs + 3) + ['f', f'r5', 'f']
        return ops
    def cases(self, rng, tier, boost):
        nfiles = 12 if tier == 'quick' else 80
        per = (self.budget(tier, boost, 900, 40000)) // nfiles
        files = self.make_files(rng, nfiles, tier)
        out = []
        for m in files:
            for k in range(per):
                reader = rng.choice(['byte', 'sample', 'chan'] + (['iter'] if self.mode == 'noseek' else []))
                nops = rng.randint(1, 12) if tier == 'quick' else rng.randint(1, 40)
                ops = self.history(rng, m, reader, nops)
                f = {'reader': reader, 'endian': rng.choice(['le', 'be']), 'ch': m['ch'], 'bps': m['bps'], 'frames': m['frames'],
                     'bs': m['bs'], 'seekpol': m['seek'], 'ops': ';'.join(ops)}
                if self.mode == 'noseek':
                    r = rng.random()
                    if r < 0.3: f['max'] = rng.choice([1, 2, 5, 17])
                    elif r < 0.5: f['split'] = gen.join(sorted(set(rng.randint(0, len(m['file']) // 2) for _ in range(rng.randint(1, 8)))))
                f['pcm'] = gen.join(m['pcm'])
                f['bytes'] = m['file']
                out.append('hist ' + gen.fields_str(f))
        return out
    def oracle(self, case, impl, profile):
        op, cf = parse_case(case)
        h, cls, f = parse_outcome(impl)
        reader = cf['reader']
        if h == 'panic':
            return (f'hist:{reader}:panic:{cls}', 'reader panicked: ' + cls)
        if h != 'ok':
            return (f'hist:{reader}:open-failed', impl[:200])
        ch, bps = int(cf['ch']), int(cf['bps'])
        pcm = ints(cf['pcm'])
        be = cf.get('endian') == 'be'
        if reader == 'byte':
            data = list(pcm_bytes(pcm, bps, be)); unit = 1
        elif reader == 'chan':
            data = [tuple(pcm[i * ch:(i + 1) * ch]) for i in range(len(pcm) // ch)]; unit = 1
        else:
            data = pcm; unit = 1
        end = len(data)
        pos = 0; avail = 0; eos = False; lastseek = ''
        ops = cf['ops'].split(';'); tr = f.get('trace', '').split(';')
        if len(ops) != len(tr):
            return (f'hist:{reader}:trace-length', f'{len(ops)} ops but {len(tr)} trace items')
        def decode(item):
            body = item.split(':', 1)[1] if ':' in item else ''
            if body.startswith('ERR'):
                return None
            if reader == 'byte':
                return [] if body in ('-', '') else list(bytes.fromhex(body))
            if reader == 'chan':
                if body.replace('|', '').replace('-', '') == '':
                    return []
                chans = [ints(c) for c in body.split('|')]
                if len(set(len(c) for c in chans)) != 1:
                    return 'ragged'
                return [tuple(c[i] for c in chans) for i in range(len(chans[0]))]
            return ints(body) if body not in ('-', '') else []
        for o, t in zip(ops, tr):
            if o[0] in 'rfx':
                d = decode(t)
                if d is None:
                    return (f'hist:{reader}:unexpected-error{lastseek}', f'op {o} returned an error on a valid stream: {t[:60]}')
                if d == 'ragged':
                    return (f'hist:{reader}:ragged-channels', 'channel slices of different lengths')
                if o[0] == 'x':
                    d = [] if t == 'x:-' else [int(t.split(':')[1])]
                if len(d) == 0:
                    if pos != end:
                        return (f'hist:{reader}:premature-eos{lastseek}', f'end of stream signalled at {pos} of {end}')
                    eos = True
                else:
                    if eos:
                        return (f'hist:{reader}:eos-not-idempotent', f'data returned after end-of-stream had been signalled (op {o})')
                    if o[0] == 'r' and len(d) > int(o[1:]):
                        return (f'hist:{reader}:read-too-long', 'read returned more than requested')
                    if data[pos:pos + len(d)] != d:
                        return (f'hist:{reader}:data-mismatch{lastseek}', f'op {o} at position {pos} returned data that is not the PCM at that position')
                    if o[0] == 'f':
                        avail = len(d)
                    else:
                        pos += len(d); avail = 0
            elif o[0] == 'c':
                k = int(t.split(':')[1]) if ':' in t else 0
                if k > avail:
                    return (f'hist:{reader}:harness', 'consume beyond fill')
                pos += k; avail -= k
            elif o[0] == 's':
                avail = 0
                if reader == 'byte':
                    kind, d = o[1], int(o[2:])
                    tgt = d if kind == 'S' else pos + d if kind == 'C' else end + d
                else:
                    kind = 's'; tgt = int(o[2:]) * (ch if reader == 'sample' else 1)
                lastseek = ':after-seek-' + kind
                ok = t.startswith('s:ok')
                if 0 <= tgt <= end:
                    if not ok:
                        return (f'hist:{reader}:seek-should-succeed:{kind}', f'seek {o} to {tgt} (of {end}) failed: {t}')
                    if reader == 'byte' and int(t.split(':')[2]) != tgt:
                        return (f'hist:{reader}:seek-position:{kind}', f'seek {o} returned position {t.split(":")[2]}, expected {tgt}')
                    pos = tgt; eos = False
                else:
                    if ok:
                        return (f'hist:{reader}:seek-should-fail:{kind}', f'seek {o} to {tgt} beyond the end ({end}) reported success')
                    return None        # position after a failed seek is unspecified: stop judging here
        return None
    def nontrivial(self, case, impl):
        return impl.startswith('ok') and impl.count(';') >= 2
    def classify(self, case, impl):
        op, cf = parse_case(case)
        return ['reader=' + cf['reader'], 'seekpol=' + cf.get('seekpol', '?'), 'ch=' + cf['ch'], 'bps=' + cf['bps']]

# ------------------------------------------------------------------------------------------------
# C08 — writer call histories
# ------------------------------------------------------------------------------------------------
class WriterHist(Component):
    """the same PCM through the three writer front-ends, both byte orders and many partitions into
    write calls; the harness also writes the reference (one call, sample writer) and compares bytes"""
    name = 'wrhist'
    ops = ('wr',)
    profiles = ('release',)
    ignore = ('file',)
    def cases(self, rng, tier, boost):
        out = []
        ninputs = 12 if tier == 'quick' else 60
        per = self.budget(tier, boost, 700, 40000) // ninputs
        for i in range(ninputs):
            ch = rng.choice([1, 2, 2, 3, 5, 8])
            bps = rng.choice([8, 16, 24, 32, 12, 20, 7, 17])
            bs = rng.choice([16, 17, 32])
            frames = rng.choice([1, 2, 5, bs - 1, bs, bs + 1, 2 * bs, 2 * bs + 3, 3 * bs + 7])
            pcm, shape = gen.pcm_multi(rng, frames, ch, bps)
            base = {'rate': 44100, 'ch': ch, 'bps': bps, 'bs': bs, 'pad': 0, 'seek': rng.choice(['off', 'frames:1', 'default']), 'ref': 1,
                    'lpc': rng.choice(['none', '4', '8'])}
            bpsb = (bps + 7) // 8
            k = 0
            while k < per:
                fe = rng.choice(['byte', 'sample', 'chan'])
                f = dict(base); f['fe'] = fe
                if fe == 'byte':
                    f['endian'] = rng.choice(['le', 'be'])
                unit_total = {'byte': len(pcm) * bpsb, 'sample': len(pcm), 'chan': frames}[fe]
                extra = []
                # a trailing partial PCM frame (never for the channel writer, which cannot express one)
                if fe != 'chan' and rng.random() < 0.4 and ch > 1:
                    extra = [gen.clamp(rng.randint(-100, 100), bps) for _ in range(rng.randint(1, ch - 1))]
                if fe == 'byte' and rng.random() < 0.2:
                    unit_total += 0
                total_units = unit_total + len(extra) * (bpsb if fe == 'byte' else 1)
                mode = rng.random()
                if mode < 0.35 and total_units <= 80:
                    # every single split point
                    sp = k % (total_units + 1)
                    chunks = [sp] if sp else []
                elif mode < 0.6:
                    a, b = sorted([rng.randint(0, total_units), rng.randint(0, total_units)])
                    chunks = [a, b - a]
                elif mode < 0.8:
                    chunks = [1] * min(total_units, 40)
                else:
                    chunks = [rng.randint(0, max(1, total_units // 2)) for _ in range(rng.randint(0, 6))]
                if rng.random() < 0.5 and not extra:
                    f['total'] = unit_total
                f['chunks'] = gen.join(chunks)
                f['partial'] = len(extra)
                f['pcm'] = gen.join(pcm + extra)
                out.append('wr ' + gen.fields_str(f))
                k += 1
        return out
    def oracle(self, case, impl, profile):
        op, cf = parse_case(case)
        h, cls, f = parse_outcome(impl)
        if h == 'panic':
            return (f'{self.name}:panic:{cls}', f'writer panicked (front-end {cf["fe"]}, trailing partial PCM frame of {cf.get("partial")} samples): ' + cls)
        if h != 'ok':
            return (f'{self.name}:failed:{cls}', 'writing legal PCM failed: ' + impl[:200])
        if f.get('sameasref') != 'true':
            return (f'{self.name}:differs-from-reference:{cf["fe"]}', f'file differs from the one-call sample-writer reference ({f.get("sameasref")})')
        return None
    def classify(self, case, impl):
        op, cf = parse_case(case)
        return ['fe=' + cf['fe'], 'partial=' + ('yes' if cf.get('partial', '0') != '0' else 'no'), 'ncalls=' + str(min(5, cf.get('chunks', '-').count(',') + 1))]

# ------------------------------------------------------------------------------------------------
# C09 — finished files against their own header
# ------------------------------------------------------------------------------------------------
class EncFile(Component):
    name = 'encfile'
    ops = ('wr',)
    profiles = ('release',)
    ignore = ('file',)
    def cases(self, rng, tier, boost):
        out = []
        n = self.budget(tier, boost, 450, 30000)
        for i in range(n):
            ch = rng.choice([1, 1, 2, 2, 3, 6])
            bps = rng.choice([8, 16, 24, 12, 5, 32])
            bs = rng.choice([16, 16, 17, 24, 32, 64])
            nblocks = rng.choice([1, 2, 3, 4, 5, 8, 12, 20])
            frames = bs * nblocks + rng.choice([0, 0, 1, 3, bs - 1])
            if frames * ch > 1500 and tier == 'quick':
                frames = max(1, 1500 // ch)
            pcm, shape = gen.pcm_multi(rng, frames, ch, bps)
            fe = rng.choice(['byte', 'sample', 'chan'])
            rate = rng.choice([44100, 8, 16, 20, 50, 100, 1000, 0 if False else 7])
            seek = rng.choice(['off', 'default', 'frames:1', 'frames:2', 'frames:5', 'secs:1', 'secs:2', 'secs:255'])
            pad = rng.choice([0, 0, 4, 17, 18, 22, 40, 58, 100, 300, None])
            f = {'fe': fe, 'endian': rng.choice(['le', 'be']), 'rate': rate, 'ch': ch, 'bps': bps, 'bs': bs, 'seek': seek,
                 'lpc': rng.choice(['none', '2', '8']), 'start': rng.choice([0, 0, 0, 1, 13, 100])}
            if pad is not None:
                f['pad'] = pad
            unit = {'byte': ch * ((bps + 7) // 8), 'sample': ch, 'chan': 1}[fe]
            if rng.random() < 0.5:
                f['total'] = frames * unit
            f['chunks'] = gen.join([rng.randint(1, max(1, frames * unit)) for _ in range(rng.randint(0, 3))])
            f['pcm'] = gen.join(pcm)
            out.append('wr ' + gen.fields_str(f))
            if i % 6 == 0:
                # a declared total that the data does not meet (one unit, one block, many blocks more than is written)
                g = dict(f)
                g['total'] = (frames + rng.choice([1, bs, 5 * bs + 3])) * unit
                g['expect'] = 'mismatch'
                out.append('wr ' + gen.fields_str(g))
        # more frames than a seek table can hold (932067 points), undeclared length, a point per frame
        out.append('wr fe=sample rate=44100 ch=1 bps=8 bs=16 seek=frames:1 lpc=none pcmgen=const:14913088:3')
        # declared totals beyond 65535 samples with a seconds policy: the placeholder table reserved up front is sized from frame lengths
        # computed from the REMAINING samples (more than 16 bits of them), and every real point must find its slot at finalize
        long_cases = [(8192, 4096, 73728), (10000, 4096, 75536)]
        if tier == 'thorough' or boost > 1:
            long_cases += [(8192, 4096, 139264), (8192, 1024, 73728), (44100, 4096, 200000), (4096, 4096, 69632), (12000, 4608, 131072 + 4608 * 3)]
        for rate, bs, total in long_cases:
            for declared in (True, False):
                out.append(f'wr fe=sample ch=1 bps=8 rate={rate} bs={bs} seek=secs:1 lpc=none pcmgen=const:{total}:3' + (f' total={total}' if declared else ''))
        return out
    def oracle(self, case, impl, profile):
        op, cf = parse_case(case)
        h, cls, f = parse_outcome(impl)
        if h == 'panic':
            return (f'{self.name}:panic:{cls}', 'encoder/finalize panicked: ' + cls)
        if cf.get('pcmgen', '').startswith('const:14913088'):
            return None if h == 'ok' else (f'{self.name}:failed:{cls}', impl[:200])
        if cf.get('expect') == 'mismatch':
            # fewer (or more) samples than declared: finalize must report it; a success is judged like any finished file below
            if h == 'err':
                return None
        elif h != 'ok':
            return (f'{self.name}:failed:{cls}', 'writing a legal file failed: ' + impl[:200])
        if f.get('prefin_ok') != 'true':
            return (f'{self.name}:finalize-disturbed-frames', 'the header rewrite at finalize changed bytes outside the metadata region')
        if f.get('total', '').isdigit() and f.get('lens') not in (None, '', '-') and int(f['total']) != 0 and int(f['total']) != sum(ints(f['lens'])):
            return (f'{self.name}:streaminfo-total-untruthful', f'STREAMINFO declares {f["total"]} samples per channel but the frames of the finished file hold {sum(ints(f["lens"]))}')
        if 'regen_ok' in f and f['regen_ok'] != 'true':
            return (f'{self.name}:seektable-regeneration-differs', 'generate_seektable over the finished file gives other defined points: ' + f['regen_ok'])
        if 'walkerr' in f or 'walkopen' in f:
            return (f'{self.name}:unreadable', 'the finished file cannot be walked frame by frame')
        return None
    def classify(self, case, impl):
        op, cf = parse_case(case)
        return ['seek=' + cf.get('seek', '?').split(':')[0], 'total=' + ('declared' if 'total' in cf else 'open'),
                'pad=' + ('default' if 'pad' not in cf else 'none' if cf['pad'] == '0' else 'small' if int(cf['pad']) < 60 else 'big'),
                'start=' + ('0' if cf.get('start', '0') == '0' else 'offset')]

# ------------------------------------------------------------------------------------------------
# C03 — generator-made valid streams through the real decoder
# ------------------------------------------------------------------------------------------------
import subprocess as _sp, os as _os

def driver_gen(kind, seed, n):
    b = _os.path.join(_vlib.LEAN, '.lake', 'build', 'bin', 'flacdrv')
    p = _sp.run([b, 'gen', kind, str(seed), str(n)], capture_output=True, text=True, timeout=1800)
    return [l for l in p.stdout.split('\n') if l.strip()]

class ValidStreams(Component):
    """valid-by-construction frames/files from the Lean generator (every syntactic alternative chosen
    independently, residuals derived from target PCM) through FlacStreamReader and all file readers"""
    name = 'validstreams'
    ops = ('streamread', 'decfile')
    def __init__(self, profiles=('release',)):
        self.profiles = profiles
    def cases(self, rng, tier, boost):
        n = self.budget(tier, boost, 1500, 60000)
        return driver_gen('valid', rng.randint(1, 10 ** 9), n)
    def oracle(self, case, impl, profile):
        op, cf = parse_case(case)
        h, cls, f = parse_outcome(impl)
        if h == 'panic':
            return (f'{self.name}:{profile}:panic:{cls}', f'decoder panicked on a valid stream ({profile} profile): {cls}')
        if op == 'streamread':
            want = 'F/' + cf['exp']
            seq = f.get('seq', '').split(';')
            if seq[:1] != [want] or seq[1:] != ['E/Io(UnexpectedEof)']:
                return (f'{self.name}:frame-misdecoded', 'FlacStreamReader did not return exactly the frame the format defines: ' + ';'.join(seq)[:160])
            return None
        reader = cf['reader']
        if reader == 'verify':
            if h != 'ok' or f.get('verified') != cf['expverify']:
                return (f'{self.name}:verify-{cf["expverify"]}', f'verify_reader: expected {cf["expverify"]}, got {impl[:80]}')
            return None
        if h != 'ok':
            return (f'{self.name}:valid-file-rejected:{cls}', f'a valid file was rejected by the {reader} reader: {impl[:160]}')
        want = ints(cf['exp'])
        if reader == 'byte':
            got = f.get('bytes', '')
            wantb = pcm_bytes(want, int(cf['bps']), cf.get('endian') == 'be').hex()
            if got != wantb:
                return (f'{self.name}:file-misdecoded:byte', 'byte reader output differs from the samples the format defines')
        else:
            if ints(f.get('pcm', '-')) != want:
                return (f'{self.name}:file-misdecoded:{reader}', f'{reader} reader output differs from the samples the format defines')
        return None
    def nontrivial(self, case, impl):
        return impl.startswith('ok') and len(case) > 80
    def classify(self, case, impl):
        op, cf = parse_case(case)
        return [op + ('/' + cf.get('reader', '') if op == 'decfile' else '')]

# ------------------------------------------------------------------------------------------------
# C04 / C05 — malformed, damaged and truncated input
# ------------------------------------------------------------------------------------------------
# 65535-sample blocks whose subframes are CONSTANT / all-zero partitions: ~20 bytes per frame
MEMORY_BOMBS = []

class InvalidStreams(Component):
    """checksum-consistent frames with one field forced to an illegal or extreme value (Lean generator)"""
    ops = ('streamread', 'decfile')
    profiles = ('release', 'checked')
    def __init__(self, mode):
        self.mode = mode         # 'nopanic' (C04) or 'reject' (C05)
        self.name = 'invalid-' + mode
    def cases(self, rng, tier, boost):
        cs = driver_gen('invalid', rng.randint(1, 10 ** 9), self.budget(tier, boost, 1500, 80000))
        if self.mode == 'nopanic':
            cs = [c + ' alloc=1' for c in cs]
            # few bytes in, half a million samples out: the largest legal block, zero-width partitions
            cs += [c + ' alloc=1' for c in MEMORY_BOMBS]
        return cs
    def oracle(self, case, impl, profile):
        op, cf = parse_case(case)
        h, cls, f = parse_outcome(impl)
        if h == 'panic':
            return (f'decode:{profile}:panic:{cls}', f'decoder panicked ({profile}) on a checksum-valid malformed frame of class {cf.get("class")}: {cls}')
        if self.mode == 'nopanic' and 'peak' in f:
            bound = (64 << 20) + 1024 * (len(cf.get('bytes', '')) // 2)
            if int(f['peak']) > bound:
                return (f'decode:{profile}:memory:{cf.get("class")}', f'peak allocation {f["peak"]} bytes for {len(cf.get("bytes",""))//2} input bytes exceeds {bound}')
        if self.mode == 'reject' and cf.get('expect') == 'reject':
            accepted = ('F/' in f.get('seq', '')) if op == 'streamread' else (h == 'ok')
            if accepted:
                return (f'must-reject-accepted:{cf.get("class")}', f'a frame of must-reject class {cf.get("class")} was decoded without error')
        return None
    def nontrivial(self, case, impl):
        return True
    def classify(self, case, impl):
        op, cf = parse_case(case)
        return ['class=' + cf.get('class', '?'), 'outcome=' + (impl.split()[0] if impl else '?')]

def crc8(b):
    c = 0
    for x in b:
        c ^= x
        for _ in range(8):
            c = ((c << 1) ^ 0x07) & 0xFF if c & 0x80 else (c << 1) & 0xFF
    return c

def crc16(b):
    c = 0
    for x in b:
        c ^= x << 8
        for _ in range(8):
            c = ((c << 1) ^ 0x8005) & 0xFFFF if c & 0x8000 else (c << 1) & 0xFFFF
    return c

class Damage(Component):
    """every single-bit flip in the audio frames and every truncation point of small valid files
    (exhaustive per file), plus flips with the frame CRC-16 repaired, plus raw random bytes"""
    ops = ('decfile', 'streamread')
    profiles = ('release', 'checked')
    def __init__(self, mode):
        self.mode = mode         # 'nopanic' (C04) or 'detect' (C05)
        self.name = 'damage-' + mode
    def cases(self, rng, tier, boost):
        nfiles = (8 if tier == 'quick' else 40) * (1 if boost == 1 else 3)
        base = [c for c in driver_gen('valid', rng.randint(1, 10 ** 9), 60 * nfiles) if c.startswith('decfile')]
        files = []
        for c in base:
            op, cf = parse_case(c)
            n = len(cf['bytes']) // 2
            if 60 <= n <= (260 if tier == 'quick' else 420):
                files.append(cf)
            if len(files) >= nfiles:
                break
        out = []
        for cf in files:
            data = bytes.fromhex(cf['bytes'])
            hl = int(cf['headlen'])
            common = f"reader=sample ch={cf['ch']} bps={cf['bps']} lens={cf['lens']} orig={cf['exp']} kind=mut"
            for bit in range(hl * 8, len(data) * 8):
                d = bytearray(data); d[bit // 8] ^= 0x80 >> (bit % 8)
                out.append(f'decfile {common} mut=flip:{bit} bytes={bytes(d).hex()}')
            for cut in range(hl, len(data)):
                out.append(f'decfile {common} mut=cut:{cut} bytes={data[:cut].hex()}')
            # CRC-16-repaired flips (single-frame files only: the frame ends with the file)
            if ',' not in cf['lens']:
                for k in range(60 if tier == 'quick' else 400):
                    d = bytearray(data)
                    bit = rng.randint(hl * 8, (len(data) - 2) * 8 - 1)
                    d[bit // 8] ^= 0x80 >> (bit % 8)
                    c = crc16(d[hl:-2]); d[-2] = c >> 8; d[-1] = c & 0xFF
                    out.append(f'decfile {common} mut=flipfix:{bit} bytes={bytes(d).hex()}')
        # raw bytes (with planted sync codes) into both entry points
        for k in range(200 if tier == 'quick' else 5000):
            ln = rng.randint(0, 200)
            b = bytearray(rng.randint(0, 255) for _ in range(ln))
            for _ in range(rng.randint(0, 3)):
                if ln >= 2:
                    j = rng.randint(0, ln - 2); b[j] = 0xFF; b[j + 1] = rng.choice([0xF8, 0xF9])
            out.append(f'streamread kind=raw bytes={bytes(b).hex()}' + (' alloc=1' if self.mode == 'nopanic' else ''))
            if files:
                hd = bytes.fromhex(rng.choice(files)['bytes'])[:42]
                out.append(f'decfile reader={rng.choice(["sample", "byte", "chan", "iter"])} kind=raw bytes={(hd + bytes(b)).hex()}')
        return out
    def oracle(self, case, impl, profile):
        op, cf = parse_case(case)
        h, cls, f = parse_outcome(impl)
        if h == 'panic':
            return (f'decode:{profile}:panic:{cls}', f'decoder panicked ({profile}) on damaged input ({cf.get("mut", cf.get("kind"))}): {cls}')
        if self.mode == 'nopanic' and 'peak' in f:
            bound = (64 << 20) + 1024 * (len(cf.get('bytes', '')) // 2)
            if int(f['peak']) > bound:
                return (f'decode:{profile}:memory', f'peak allocation {f["peak"]} bytes for {len(cf.get("bytes",""))//2} input bytes exceeds {bound}')
        if self.mode != 'detect' or cf.get('kind') != 'mut':
            return None
        ch = int(cf['ch'])
        orig = ints(cf['orig'])
        lens = ints(cf['lens'])
        got = ints(f.get('pcm', '-'))
        if h == 'err':
            bounds = [0]
            for l in lens:
                bounds.append(bounds[-1] + l * ch)
            if len(got) not in bounds or got != orig[:len(got)]:
                return ('damage:delivered-not-a-whole-frame-prefix', f'after {cf["mut"]} the samples delivered before the error are not a whole-frame prefix of the original audio')
            return None
        # h == 'ok': judged by the L0 verdict in the spec slot (another valid stream or a violation)
        return None
    def nontrivial(self, case, impl):
        return impl.startswith('err') or impl.startswith('ok')
    def classify(self, case, impl):
        op, cf = parse_case(case)
        return ['mut=' + cf.get('mut', cf.get('kind', '?')).split(':')[0], 'outcome=' + (impl.split()[0] if impl else '?')]

# ------------------------------------------------------------------------------------------------
# C17 — structural parser vs streaming decoder
# ------------------------------------------------------------------------------------------------
class StructCmp(Component):
    name = 'structcmp'
    ops = ('structcmp',)
    profiles = ('release', 'checked')
    def cases(self, rng, tier, boost):
        n = self.budget(tier, boost, 900, 40000)
        out = []
        for l in driver_gen('valid', rng.randint(1, 10 ** 9), n) + driver_gen('invalid', rng.randint(1, 10 ** 9), n):
            op, cf = parse_case(l)
            if op == 'streamread':
                out.append(f"structcmp si=none bytes={cf['bytes']} class={cf.get('class', 'valid')} nummin={cf.get('nummin', '0')}")
        return out
    def oracle(self, case, impl, profile):
        op, cf = parse_case(case)
        h, cls, f = parse_outcome(impl)
        if h == 'panic':
            return (f'structcmp:{profile}:panic:{cls}', f'structural parser / expansion panicked ({profile}) on class {cf.get("class")}: {cls}')
        if h != 'ok':
            return (f'structcmp:harness:{cls}', impl[:200])
        s_ok = f.get('struct') == 'ok'
        d_ok = f.get('dec') == 'ok'
        if s_ok != d_ok:
            return (f'structcmp:accept-mismatch:{"struct" if s_ok else "decoder"}-accepts:{cf.get("class")}',
                    f'the structural parser {"accepts" if s_ok else "rejects"} a frame (class {cf.get("class")}) that the streaming decoder {"accepts" if d_ok else "rejects"}: {f.get("struct")} / {f.get("dec")}')
        if not s_ok:
            return None
        if f.get('lens_ok') != 'true':
            return (f'structcmp:expansion-length:{cf.get("class")}', f'a parsed subframe expands to {f.get("lens")} samples in a block of {f.get("bs")}')
        if f.get('spcm') != f.get('decpcm'):
            return (f'structcmp:samples-differ:{cf.get("class")}', 'samples expanded from the parsed structure differ from the streaming decoder\'s')
        if cf.get('nummin') == '1' and cf.get('class') not in ('nonzero-padding', 'reserved-header-bit'):
            used = int(f.get('used', '0'))
            if f.get('rewritten') != cf['bytes'][:2 * used]:
                return (f'structcmp:rewrite-differs:{cf.get("class")}', 're-serialising the parsed frame does not reproduce the original bytes')
        return None
    def nontrivial(self, case, impl):
        return 'struct=ok' in impl or 'struct=err' in impl
    def classify(self, case, impl):
        op, cf = parse_case(case)
        h, cls, f = parse_outcome(impl)
        return ['class=' + cf.get('class', '?'), 'struct=' + f.get('struct', '?').split(':')[0], 'dec=' + f.get('dec', '?').split(':')[0]]

class StructNoPanic(StructCmp):
    """C04: the frame-parsing entry points of stream.rs (`Frame::read`, `Frame::read_subset`, `Subframe::decode`) on the same
    checksum-valid malformed frames, both profiles: data or an error, never a panic"""
    name = 'structparse'
    def cases(self, rng, tier, boost):
        n = self.budget(tier, boost, 700, 40000)
        out = []
        for l in driver_gen('invalid', rng.randint(1, 10 ** 9), n):
            op, cf = parse_case(l)
            if op == 'streamread':
                out.append(f"structcmp si=none bytes={cf['bytes']} class={cf.get('class', 'valid')} nummin={cf.get('nummin', '0')}")
        return out
    def oracle(self, case, impl, profile):
        op, cf = parse_case(case)
        h, cls, f = parse_outcome(impl)
        if h == 'panic':
            return (f'structparse:{profile}:panic:{cls}', f'structural parser / expansion panicked ({profile}) on a checksum-valid malformed frame of class {cf.get("class")}: {cls}')
        return None

# ------------------------------------------------------------------------------------------------
# C14 — interrupted encodes
# ------------------------------------------------------------------------------------------------
class CrashPrefix(Component):
    name = 'crash'
    ops = ('crash',)
    profiles = ('release',)
    ignore = ('s',)
    def cases(self, rng, tier, boost):
        out = []
        n = self.budget(tier, boost, 60, 3000)
        for i in range(n):
            ch = rng.choice([1, 2, 2, 3])
            # depths and rates without a frame-header code make every frame header refer to STREAMINFO
            bps = rng.choice([8, 16, 24, 12, 32, 10, 7, 17, 21])
            bs = rng.choice([16, 16, 20, 32])
            nblocks = rng.randint(1, 5)
            frames = bs * nblocks + rng.choice([0, 1, 7, bs - 1])
            pcm, shape = gen.pcm_multi(rng, frames, ch, bps)
            fe = rng.choice(['byte', 'sample', 'chan'])
            f = {'fe': fe, 'endian': rng.choice(['le', 'be']), 'rate': rng.choice([44100, 20, 100, 96001, 655351, 1048575]), 'ch': ch, 'bps': bps, 'bs': bs,
                 'seek': rng.choice(['off', 'default', 'frames:1', 'frames:2', 'secs:1']), 'pad': rng.choice([0, 0, 30, 100]),
                 'lpc': rng.choice(['none', '2', '8']), 'reader': rng.choice(['sample', 'chan']),
                 'cuts': 'all' if (i % 3 != 0 or tier == 'thorough') else 'calls'}
            unit = {'byte': ch * ((bps + 7) // 8), 'sample': ch, 'chan': 1}[fe]
            if rng.random() < 0.5:
                f['total'] = frames * unit
            f['chunks'] = gen.join([rng.randint(1, max(1, frames * unit)) for _ in range(rng.randint(0, 3))])
            f['pcm'] = gen.join(pcm)
            out.append('crash ' + gen.fields_str(f))
            # the same encode with MORE data than the declared total: the block that would overshoot must be refused and nothing of it
            # may reach the stream, so that the abandoned file still decodes to every frame it holds
            if i % 4 == 0 and nblocks >= 2:
                g = dict(f)
                short = rng.choice([bs * rng.randint(1, nblocks - 1), bs * rng.randint(1, nblocks - 1) + rng.choice([1, 5, bs - 1])])
                g['total'] = short * unit
                g['overfill'] = 1
                out.append('crash ' + gen.fields_str(g))
        return out
    def oracle(self, case, impl, profile):
        op, cf = parse_case(case)
        h, cls, f = parse_outcome(impl)
        if h == 'panic':
            return (f'crash:panic:{cls}', 'decoding a prefix of an unfinished stream panicked: ' + cls)
        if h != 'ok':
            return (f'crash:write-failed:{cls}', impl[:200])
        ends = ints(f['ends']); lens = ints(f['lens']); metalen = int(f['metalen'])
        # the frames written before finalize are the whole blocks of the input, whatever the readers make of them
        whole = (len(ints(cf['pcm'])) // int(cf['ch'])) // int(cf['bs'])
        if cf.get('overfill') == '1':
            # only the blocks that fit the declared total may have been written
            ch0 = int(cf['ch']); unit0 = {'byte': ch0 * ((int(cf['bps']) + 7) // 8), 'sample': ch0, 'chan': 1}[cf['fe']]
            whole = min(whole, (int(cf['total']) // unit0) // int(cf['bs']))
            if 'refused' not in f:
                return ('crash:overfill-accepted', 'more samples than the declared total were written and no write was refused')
        if len(ends) != whole or any(l != int(cf['bs']) for l in lens):
            return ('crash:frames-unreadable', f'{whole} whole blocks of {cf["bs"]} were written before finalize but the unfinished file parses into frames of {lens}')
        declared = 'total' in cf
        ch = int(cf['ch'])
        unit = {'byte': ch * ((int(cf['bps']) + 7) // 8), 'sample': ch, 'chan': 1}[cf['fe']]
        total = int(cf['total']) // unit if declared else None
        for it in f['cutres'].split(','):
            if it in ('', '-'):
                continue
            cut, n, st, m = it.split(':')
            cut, n = int(cut), int(n)
            k = sum(1 for e in ends if e <= cut)
            want = sum(lens[:k])
            if m != '1':
                return ('crash:foreign-samples', f'prefix of {cut} bytes decodes to samples that were never written')
            if n != want:
                return ('crash:wrong-frame-count:' + ('missing' if n < want else 'extra'), f'prefix of {cut} bytes holds {k} complete frames ({want} samples) but {n} samples were delivered')
            if cut >= metalen:
                if declared:
                    good = (st == 'ok') == (want == total)
                else:
                    good = (st == 'ok') == (cut == metalen or cut in ends)
                if not good:
                    return ('crash:end-status:' + ('declared' if declared else 'undeclared'), f'prefix of {cut} bytes (complete frames end at {ends}) ended with status {st}')
        return None
    def nontrivial(self, case, impl):
        return impl.startswith('ok') and impl.count(',') > 5
    def classify(self, case, impl):
        op, cf = parse_case(case)
        return ['total=' + ('declared' if 'total' in cf else 'open'), 'cuts=' + cf['cuts'], 'seek=' + cf['seek'].split(':')[0]]

# ------------------------------------------------------------------------------------------------
# C15 — constructor grid and declared-length histories
# ------------------------------------------------------------------------------------------------
class CtorGrid(Component):
    name = 'ctor'
    ops = ('ctor',)
    profiles = ('release', 'checked')
    ignore = ('stage', 'md5')
    def cases(self, rng, tier, boost):
        out = []
        grid = {
            'bps': [0, 1, 2, 4, 8, 16, 24, 31, 32, 33, 64],
            'ch': [0, 1, 2, 8, 9, 255],
            'rate': [0, 1, 44100, 1048575, 1048576, 4000000000],
            'bs': [0, 15, 16, 17, 4096, 65535],
            'lpc': ['none', '0', '1', '8', '31', '32', '33'],
            'po': [0, 5, 15, 16],
        }
        base = {'bps': 16, 'ch': 2, 'rate': 44100, 'bs': 16, 'lpc': '8', 'po': 5}
        fes = ['byte', 'sample', 'chan']
        # one parameter at a time over its whole boundary list, then random crossings
        for fe in fes:
            for k, vals in grid.items():
                for v in vals:
                    f = dict(base); f[k] = v; f['fe'] = fe
                    for fill, tot in ((40, None), (40, 'exact'), (40, 'under'), (40, 'over'), (0, None)):
                        g = dict(f); g['fill'] = fill
                        self.add_total(g, fill, tot)
                        out.append('ctor ' + gen.fields_str(g))
        n = self.budget(tier, boost, 400, 30000)
        for i in range(n):
            f = {k: rng.choice(v) for k, v in grid.items()}
            if rng.random() < 0.6:
                f.update({k: base[k] for k in rng.sample(list(base), 3)})
            f['fe'] = rng.choice(fes)
            f['fill'] = rng.choice([0, 1, 15, 16, 17, 40, 100])
            f['calls'] = rng.choice([1, 2, 5])
            self.add_total(f, f['fill'], rng.choice([None, 'exact', 'under', 'over', 'zero', 'odd']))
            out.append('ctor ' + gen.fields_str(f))
        # documented maxima together, with enough samples per block for the LPC analysis to run
        for fe in fes:
            out.append(f'ctor fe={fe} bps=32 ch=8 rate=1048575 bs=64 lpc=32 po=15 fill=200 calls=3')
            out.append(f'ctor fe={fe} bps=1 ch=1 rate=1 bs=16 lpc=32 po=15 fill=100')
        # every documented partition order on blocks long and even enough for it to be tried (a block of 2^k samples admits order k)
        for po in range(0, 16):
            for bs, fill in ((128, 300), (4096, 4200), (32768, 32768)):
                if bs == 32768 and po not in (6, 7, 14, 15):
                    continue
                out.append(f'ctor fe={("sample", "byte", "chan")[po % 3]} bps=16 ch=1 rate=44100 bs={bs} lpc=8 po={po} fill={fill}')
        return out
    def add_total(self, f, fill, tot):
        ch = int(f['ch']); bps = int(f['bps'])
        unit = {'byte': max(ch, 0) * ((bps + 7) // 8), 'sample': ch, 'chan': 1}[f['fe']]
        if tot == 'exact': f['total'] = fill * unit
        elif tot == 'under': f['total'] = (fill + 3) * unit
        elif tot == 'over': f['total'] = max(0, fill - 3) * unit
        elif tot == 'zero': f['total'] = 0
        elif tot == 'odd': f['total'] = fill * unit + 1
    def documented(self, cf):
        return (1 <= int(cf['bps']) <= 32 and 1 <= int(cf['ch']) <= 8 and int(cf['rate']) < 2 ** 20 and int(cf['bs']) >= 16
                and (cf['lpc'] == 'none' or 1 <= int(cf['lpc']) <= 32) and int(cf['po']) <= 15)
    def oracle(self, case, impl, profile):
        op, cf = parse_case(case)
        h, cls, f = parse_outcome(impl)
        if h == 'panic':
            return (f'ctor:{profile}:panic:{cls}', f'constructor / writer panicked ({profile}): {cls}')
        ch = max(1, int(cf['ch'])); bps = int(cf['bps'])
        fill = int(cf['fill'])
        if self.documented(cf):
            unit = {'byte': ch * ((bps + 7) // 8), 'sample': ch, 'chan': 1}[cf['fe']]
            if 'total' not in cf:
                if fill > 0 and h != 'ok':
                    return (f'ctor:documented-value-refused:{cls}', f'documented parameters were refused or failed: {impl[:120]}')
                if fill > 0 and (f.get('total') != str(fill) or f.get('roundtrip') != 'true'):
                    return ('ctor:count-not-recorded', f'undeclared length: wrote {fill} PCM frames, file says {f.get("total")} roundtrip={f.get("roundtrip")}')
            else:
                t = int(cf['total'])
                if t > 0 and t % unit == 0:
                    d = t // unit
                    if fill == d and h != 'ok':
                        return (f'ctor:exact-fill-refused:{cls}', 'writing exactly the declared length failed: ' + impl[:120])
                    if fill != d and h == 'ok':
                        return ('ctor:length-contract:' + ('over' if fill > d else 'under'), f'declared {d} PCM frames, wrote {fill}, and finalize reported success')
                elif t > 0 and h == 'ok' and fill * unit != t:
                    # a declared total that is not a whole number of PCM frames: whatever the constructor makes of it, the units written
                    # differ from the units declared, and neither the constructor, nor a write, nor finalize reported anything
                    return ('ctor:length-contract:fractional', f'declared {t} units (not a whole number of PCM frames), wrote {fill * unit}, and nothing was reported')
        return None
    def nontrivial(self, case, impl):
        return True
    def classify(self, case, impl):
        op, cf = parse_case(case)
        return ['outcome=' + (impl.split()[0] + (':' + impl.split()[1] if impl.startswith('err') else '')), 'total=' + ('yes' if 'total' in cf else 'no')]


# ------------------------------------------------------------------------------------------------
# metadata components (C10, C11, C12, C13, C20)
# ------------------------------------------------------------------------------------------------
import metagen

def _canon_err(v):
    return v.split(':')[0]

def walk_block_sizes(b):
    """body sizes of the blocks in a serialised metadata section"""
    out = []; i = 4
    while i + 4 <= len(b):
        n = int.from_bytes(b[i + 1:i + 4], 'big'); out.append(n); i += 4 + n
        if b[i - 4 - n] & 0x80:
            break
    return out, i

class BlocksWrite(Component):
    name = 'blocksw'
    ops = ('blocksw',)
    profiles = ('release', 'checked')
    def cases(self, rng, tier, boost):
        out = ['blocksw list=' + l for l in (metagen.SIZE_LIMIT_LISTS if tier == 'thorough' else metagen.SIZE_LIMIT_LISTS[4:5] + metagen.SIZE_LIMIT_LISTS[-1:])]
        # every picture type code the format defines (and the first two undefined ones), each alone
        for t in range(0, 23):
            out.append('blocksw list=' + metagen.streaminfo_lit(rng) + ';' + metagen.picture_lit(rng, t))
        # the once-per-file rules: every ordered pair (and some triples) of the icon picture types and an ordinary one
        out += ['blocksw list=' + l for l in metagen.single_instance_cases()[1]]
        # every block kind alone at its extremes, then random lists
        for kind in 'PATVIQC':
            for _ in range(self.budget(tier, boost, 12, 300)):
                out.append('blocksw list=' + metagen.streaminfo_lit(rng) + ';' + metagen.optional_block_lit(rng, kind))
        for cdda in (True, False):
            for _ in range(self.budget(tier, boost, 3, 40)):
                out.append('blocksw list=' + metagen.streaminfo_lit(rng) + ';' + metagen.big_cue_struct(rng, cdda))
        for _ in range(self.budget(tier, boost, 150, 6000)):
            out.append('blocksw list=' + metagen.block_list(rng))
        return out
    def oracle(self, case, impl, profile):
        h, cls, f = parse_outcome(impl)
        if h == 'panic':
            return (f'blocksw:{profile}:panic:{cls}', f'writing or re-reading a block list panicked ({profile}): {cls}')
        if h == 'ok':
            rb = f.get('readback', '')
            if rb.startswith('differs:'):
                # the one representational quirk: md5 Some([0; 16]) is stored like None
                op, cf = parse_case(case)
                lits = cf.get('list', '').split(';')
                canon = ';'.join(l[:-32] + 'none' if l.startswith('S:') and l.endswith(':' + '00' * 16) else l for l in lits)
                if canon != cf.get('list') and rb[len('differs:'):].split(';')[0] == canon.split(';')[0]:
                    return ('blocksw:readback:md5-some-zero', 'STREAMINFO with md5 = Some([0; 16]) reads back with md5 = None')
            if rb != 'equal':
                return ('blocksw:readback:' + _canon_err(rb), f'the writer accepted the list but it reads back as {rb[:160]}')
            by = f.get('bytes', '')
            if not by.startswith('#') and by != '-':
                sizes, _ = walk_block_sizes(bytes.fromhex(by))
                rep = [x.split('/') for x in f.get('sizes', '').split(',')]
                if [str(n) for n in sizes] != [r[0] for r in rep]:
                    return ('blocksw:size-report', f'reported sizes {f.get("sizes")} but wrote bodies of {sizes}')
                if any(r[1] != str(int(r[0]) + 4) for r in rep if r[0] != 'none'):
                    return ('blocksw:total-size-report', f'total_size is not bytes+4: {f.get("sizes")}')
        return None
    def nontrivial(self, case, impl):
        return impl.startswith('ok')
    def classify(self, case, impl):
        op, cf = parse_case(case)
        kinds = ''.join(sorted(set(l[0] for l in cf.get('list', '').split(';') if l)))
        h, cls, f = parse_outcome(impl)
        return ['outcome=' + (h + (':' + cls.split('(')[0] if h == 'err' else ''))] + ['has=' + k for k in kinds]

class BlocksRead(Component):
    name = 'blocksr'
    ops = ('blocksr',)
    profiles = ('release', 'checked')
    def cases(self, rng, tier, boost):
        out = [f'blocksr bytes={b.hex()} alloc=1 class={c}' for c, b in metagen.inflated_sections()]
        out += [f'blocksr bytes={b.hex()} alloc=1 class={c}' for c, b in metagen.single_instance_cases()[0]]
        for _ in range(self.budget(tier, boost, 400, 20000)):
            b = metagen.section(rng)
            if rng.random() < 0.7:
                b = metagen.damage(rng, b)
            out.append(f'blocksr bytes={b.hex() or "00"} alloc=1')
        return out
    def oracle(self, case, impl, profile):
        op, cf = parse_case(case)
        h, cls, f = parse_outcome(impl)
        if h == 'panic':
            return (f'blocksr:{profile}:panic:{cls}', f'reading a metadata section panicked ({profile}): {cls}')
        n = len(cf.get('bytes', '')) // 2
        # bounded = a constant plus a multiple of the input: the largest legitimate up-front allocation is a SEEKTABLE's
        # point vector, sized from the 24-bit block size (at most 2^24/18 points of 24 bytes = 22 MiB)
        if 'peak' in f and int(f['peak']) > 64 * n + (1 << 25):
            return ('blocksr:alloc', f'reading {n} bytes of metadata allocated {f["peak"]} bytes')
        if h == 'ok':
            rw = f.get('rewritten', '')
            if rw.startswith(('ERR', 'REREAD')):
                return ('blocksr:rewrite:' + _canon_err(rw), f'the reader accepted the bytes but writing them again gives {rw[:120]}')
        return None
    def classify(self, case, impl):
        h, cls, f = parse_outcome(impl)
        return ['outcome=' + (h + (':' + cls.split('(')[0] if h == 'err' else ''))]

def ranges_of_literal(lit):
    p = lit.split(':')
    starts = []
    for t in (p[4].split(',') if p[4] != '-' else []):
        q = t.split('.')
        idx = [tuple(int(x) for x in i.split('/')) for i in q[5].split('+')]
        one = [o for o, n in idx if n == 1][0]
        starts.append(int(q[0]) + one)
    starts.append(int(p[5].split('.')[0]))
    return ','.join(f'{a}-{b}' for a, b in zip(starts, starts[1:])) or '-'

class CueText(Component):
    """mode 'exact' (C20): well-formed texts must import to the described layout; mode 'total' (C12): only
    totality is judged (a refused or differently imported text is not a C12 matter)"""
    name = 'cuetext'
    ops = ('cuetext',)
    profiles = ('release', 'checked')
    def __init__(self, mode='exact'):
        self.mode = mode
    def cases(self, rng, tier, boost):
        out = [f'cuetext total={t} text={x.encode("utf-8").hex()}' for t, x in metagen.cue_edge_texts()]
        for _ in range(self.budget(tier, boost, 300, 15000)):
            wf = rng.random() < 0.55
            total, text, expected = metagen.cue_text(rng, wellformed=wf)
            out.append(f'cuetext total={total} text={text.encode("utf-8").hex() or "-"}' + (f' expect={expected}' if expected else ''))
        return out
    def oracle(self, case, impl, profile):
        op, cf = parse_case(case)
        h, cls, f = parse_outcome(impl)
        if h == 'panic':
            return (f'cuetext:{profile}:panic:{cls}', f'importing a cue sheet text panicked ({profile}): {cls}')
        if 'expect' in cf and self.mode == 'exact':
            if h != 'ok':
                return ('cuetext:wellformed-refused:' + cls, f'a well-formed cue sheet was refused: {impl[:100]}')
            if f.get('cue') != cf['expect']:
                return ('cuetext:layout', f'imported layout {f.get("cue", "")[:200]} is not the one written in the text {cf["expect"][:200]}')
            if f.get('ranges') != ranges_of_literal(cf['expect']):
                return ('cuetext:ranges', f'track ranges {f.get("ranges")} expected {ranges_of_literal(cf["expect"])}')
            if f.get('reimport') != 'same':
                return ('cuetext:reimport:' + _canon_err(f.get('reimport', '')), f'export then import gives {f.get("reimport", "")[:160]}')
        return None
    def nontrivial(self, case, impl):
        return impl.startswith('ok')
    def classify(self, case, impl):
        op, cf = parse_case(case)
        h, cls, f = parse_outcome(impl)
        return ['wellformed=' + ('yes' if 'expect' in cf else 'no'), 'outcome=' + (h + (':' + cls if h == 'err' else ''))]

class Accessors(Component):
    name = 'accessors'
    ops = ('accessors',)
    profiles = ('release', 'checked')
    def cases(self, rng, tier, boost):
        out = []
        for _ in range(self.budget(tier, boost, 300, 12000)):
            b = metagen.section(rng)
            if rng.random() < 0.2:
                b = metagen.damage(rng, b)
            out.append(f'accessors bytes={b.hex()}')
        return out
    def oracle(self, case, impl, profile):
        h, cls, f = parse_outcome(impl)
        if h == 'panic':
            return (f'accessors:{profile}:panic:{cls}', f'an accessor on a parsed block list panicked ({profile}): {cls}')
        return None
    def classify(self, case, impl):
        h, cls, f = parse_outcome(impl)
        return ['outcome=' + h, 'cues=' + ('yes' if f.get('cues', '-') != '-' else 'no'), 'dur=' + ('none' if f.get('dur') == 'none' else 'some')]

class Pictures(Component):
    name = 'picture'
    ops = ('picture',)
    profiles = ('release', 'checked')
    def cases(self, rng, tier, boost):
        return [f'picture data={metagen.image(rng).hex() or "-"} alloc=1' for _ in range(self.budget(tier, boost, 400, 20000))]
    def oracle(self, case, impl, profile):
        op, cf = parse_case(case)
        h, cls, f = parse_outcome(impl)
        if h == 'panic':
            return (f'picture:{profile}:panic:{cls}', f'sniffing image bytes panicked ({profile}): {cls}')
        n = len(cf.get('data', '')) // 2
        if 'peak' in f and int(f['peak']) > 64 * n + (1 << 16):
            return ('picture:alloc', f'sniffing {n} bytes allocated {f["peak"]} bytes')
        return None
    def nontrivial(self, case, impl):
        return impl.startswith('ok')
    def classify(self, case, impl):
        h, cls, f = parse_outcome(impl)
        return ['outcome=' + (h + (':' + (f.get('mime', '') if h == 'ok' else cls)))]

def _fnv_tag(b):
    """the harness's `#len:fnv1a64` rendering of a long byte string"""
    h = 0xcbf29ce484222325
    for x in b:
        h = ((h ^ x) * 0x100000001b3) & 0xFFFFFFFFFFFFFFFF
    return f'#{len(b)}:{h:016x}'

def _pad_limit_cases():
    """the 24-bit padding limit of `grow_padding`: an APPLICATION block of 13 bytes is removed in front of a PADDING block whose
    size sweeps 2^24-1-13 ± 2, so the grown padding would be 2^24-3 … 2^24+1 (in place up to 2^24-1, rebuilt beyond)"""
    si = bytes.fromhex('10001000000000000000000ac442f0000000') + bytes(16)
    app = (7).to_bytes(4, 'big') + bytes(5)
    out = []
    for d in (-2, 0, 1, 2):
        P = (1 << 24) - 14 + d
        vc = bytes(8)   # empty vendor string, no fields: moves forward when the APPLICATION block goes
        m = (b'fLaC' + bytes([0]) + (34).to_bytes(3, 'big') + si + bytes([2]) + len(app).to_bytes(3, 'big') + app
             + bytes([4]) + len(vc).to_bytes(3, 'big') + vc + bytes([0x81]) + P.to_bytes(3, 'big') + bytes(P))
        fr = b'\xff\xf8\x01\x02'
        out.append(f'update file={(m + fr).hex()} edits=apprm frames={len(fr)}')
    return out

class UpdateHist(Component):
    name = 'update'
    ops = ('update',)
    profiles = ('release',)
    def cases(self, rng, tier, boost):
        out = []
        for _ in range(self.budget(tier, boost, 250, 8000)):
            pads = rng.choice([[], [rng.choice([0, 4, 16, 40, 200])], [rng.choice([0, 8, 30]), rng.choice([0, 50])], [5, 5, 500]])
            # one case in eight has more metadata than one 8 KiB read buffer (cover art, long comments)
            meta, frames = metagen.small_file(rng, pads, big=rng.choice([8100, 8192, 9000, 20000]) if rng.random() < 0.125 else 0)
            slack = (pads[0] if pads else rng.choice([0, 10, 40]))
            edits = '|'.join(metagen.edit_script(rng, slack) for _ in range(rng.choice([1, 1, 2, 4])))
            out.append(f'update file={(meta + frames).hex()} edits={edits} frames={len(frames)}')
        # the path API (`metadata::update(path, ..)`: the rebuilt file IS the original on disk), with more audio behind the metadata than
        # one 8 KiB read buffer holds, edit histories that stay in place and that rebuild
        for _ in range(self.budget(tier, boost, 12, 200)):
            pads = rng.choice([[], [16], [40], [8, 50]])
            meta, _fr = metagen.small_file(rng, pads)
            frames = b'\xff\xf8' + bytes(rng.randrange(256) for _ in range(rng.choice([9000, 20000, 70000])))
            slack = pads[0] if pads else 10
            edits = '|'.join(metagen.edit_script(rng, slack) for _ in range(rng.choice([1, 2, 3])))
            out.append(f'update file={(meta + frames).hex()} edits={edits} frames={len(frames)} path=1')
        if tier == 'thorough' or boost > 1:
            # the 24-bit limit: padding that would have to grow past it, blocks that exceed it (16 MiB files: thorough tier and
            # the escalated search after a broken obligation only)
            out += _pad_limit_cases()
            meta, frames = metagen.small_file(rng, [16777000])
            out.append(f'update file={(meta + frames).hex()} edits=app:0000002a:5|apprm,padset:16777215|padset:3,vrm|pic:3:16777300 frames={len(frames)}')
        return out
    def oracle(self, case, impl, profile):
        op, cf = parse_case(case)
        h, cls, f = parse_outcome(impl)
        if h == 'panic':
            return (f'update:panic:{cls}', 'update_file panicked: ' + cls)
        if h != 'ok':
            return None
        steps = f.get('steps', '').split(','); lens = ints(f.get('lens', ''))
        nfr = int(cf['frames']); file0 = bytes.fromhex(cf['file'])
        fin = f.get('final', '')
        if not fin.startswith('#'):
            final = bytes.fromhex(fin) if fin != '-' else b''
            if nfr and final[-nfr:] != file0[-nfr:]:
                return ('update:frames-disturbed', 'the bytes from the first audio frame onward changed')
            if all(s.startswith('ERR') for s in steps) and final != file0:
                return ('update:failed-edit-touched-file', 'every step failed but the file changed')
        elif nfr and f.get('tailsame') == '0':
            return ('update:frames-disturbed', 'the bytes from the first audio frame onward changed (long file: compared by the harness)')
        elif all(s.startswith('ERR') for s in steps) and fin != _fnv_tag(file0):
            # long files are reported as length + FNV-1a hash
            return ('update:failed-edit-touched-file', 'every step failed but the file changed')
        for i, s_ in enumerate(steps):
            if s_ == 'inplace' and lens[i + 1] != lens[i]:
                return ('update:inplace-length', f'step {i} reported in-place but the length went {lens[i]} -> {lens[i + 1]}')
            if s_.startswith('ERR') and lens[i + 1] != lens[i]:
                return ('update:failed-edit-length', f'step {i} failed but the length went {lens[i]} -> {lens[i + 1]}')
        return None
    def classify(self, case, impl):
        h, cls, f = parse_outcome(impl)
        return ['step=' + _canon_err(s_) for s_ in f.get('steps', '').split(',') if s_]

class Faults(Component):
    """C13: every failure index of the underlying stream, for update_file, write_blocks and
    encode+finalize.  Judged by the property oracle on the implementation (the model's part is the
    buffered-writer theorem; fault cases are not replayed through the driver)."""
    name = 'faults'
    ops = ('update', 'blocksw', 'wr')
    profiles = ('release',)
    model = False
    def cases(self, rng, tier, boost):
        out = []
        nscen = self.budget(tier, boost, 6, 60)
        kinds = ['perm', 'once', 'intr', 'short']
        for _ in range(nscen):
            pads = rng.choice([[], [40], [200], [8, 50]])
            meta, frames = metagen.small_file(rng, pads)
            slack = pads[0] if pads else 10
            edit = metagen.edit_script(rng, slack).replace('fail', 'vrm')
            for tgt in ('orig', 'rebuilt'):
                for k in kinds:
                    for only in ('', 'w', 'f', 's', 'r'):
                        for at in range(0, 14 if tier == 'quick' else 40):
                            out.append(f'update file={(meta + frames).hex()} edits={edit} frames={len(frames)} failat={at} fkind={k} ftarget={tgt}' + (f' fonly={only}' if only else ''))
            # a source that hands its bytes over in small pieces (16 or 100 per read), so that the metadata section spans many read calls:
            # a read that fails after STREAMINFO has been parsed must stop the update like any other
            for frag in (16, 100):
                for k in ('perm', 'once', 'intr'):
                    for at in range(0, 24 if tier == 'quick' else 60):
                        out.append(f'update file={(meta + frames).hex()} edits={edit} frames={len(frames)} rfrag={frag} failat={at} fkind={k} ftarget=orig fonly=r')
        for _ in range(nscen):
            bl = metagen.streaminfo_lit(rng) + ';' + ';'.join(metagen.optional_block_lit(rng, rng.choice('PAVIT')) for _ in range(rng.choice([1, 2, 3])))
            for k in kinds:
                for at in range(0, 30 if tier == 'quick' else 120):
                    out.append(f'blocksw list={bl} failat={at} fkind={k}')
            for k in (1, 3, 7):
                out.append(f'blocksw list={bl} failat=0 fkind=shortfrom:{k}')
        for _ in range(max(2, nscen // 2)):
            ch = rng.choice([1, 2]); bps = rng.choice([8, 16]); n = rng.choice([20, 70, 200])
            pcm, _shape = gen.pcm_multi(rng, n, ch, bps)
            base = f'wr fe={rng.choice(["byte", "sample", "chan"])} ch={ch} bps={bps} rate=44100 bs={rng.choice([16, 32])} pcm={gen.join(pcm)} chunks=- ref=1 endian=le'
            for k in ['perm', 'once', 'intr', 'short:1', 'short:3']:
                for only in ('', 'w', 'f', 's'):
                    for at in range(0, 25 if tier == 'quick' else 120):
                        out.append(base + f' failat={at} fkind={k}' + (f' fonly={only}' if only else ''))
            # a sink that accepts at most k bytes per call from some call on: every byte still arrives, so the file must be
            # the fault-free one
            for k in (1, 2, 3, 7):
                for at in (0, 1, 2, 5, 11):
                    out.append(base + f' failat={at} fkind=shortfrom:{k} fonly=w')
        return out
    def oracle(self, case, impl, profile):
        op, cf = parse_case(case)
        h, cls, f = parse_outcome(impl)
        if h == 'panic':
            return (f'faults:{op}:panic:{cls}', f'{op} panicked under an injected I/O failure: {cls}')
        perm = cf.get('fkind') == 'perm'
        if op == 'update' and h == 'ok':
            steps = f.get('steps', '').split(',')
            if f.get('tripped') == '1' and not steps[0].startswith('ERR') and f.get('complete') != '1':
                return (f'faults:update:success-without-delivery:{cf.get("ftarget")}:{cf.get("fonly", "any")}:{cf.get("fkind")}',
                        f'update_file reported {steps[0]} although call {cf["failat"]} of the {cf.get("ftarget")} stream failed ({cf.get("fkind")}) and the result is incomplete')
            if steps[0].startswith('ERR') and f.get('cleansteps', '').startswith('ERR') is False and f.get('tripped') == '0':
                return ('faults:update:spurious-error', 'update_file failed without an injected fault having fired')
        if op == 'blocksw':
            if h == 'ok' and f.get('complete') != '1':
                return (f'faults:write_blocks:success-without-delivery:{cf.get("fkind")}', f'write_blocks reported success but the sink holds an incomplete result (failure at call {cf["failat"]})')
        if op == 'wr' and h == 'ok' and f.get('tripped') in ('1', 'true') and f.get('sameasref') != 'true':
            # whatever the kind of failure (permanent, transient, interrupted, short write): success means that the complete,
            # valid result reached the stream, i.e. the bytes are those of the fault-free run
            return (f'faults:encode:success-without-delivery:{cf.get("fkind")}', f'encode+finalize reported success although call {cf["failat"]} failed ({cf.get("fkind")}) and the file differs from the fault-free one')
        return None
    def nontrivial(self, case, impl):
        h, cls, f = parse_outcome(impl)
        return f.get('tripped') in ('1', 'true')
    def classify(self, case, impl):
        op, cf = parse_case(case)
        h, cls, f = parse_outcome(impl)
        return [f'{op}:' + h + ':tripped=' + f.get('tripped', '?'), 'kind=' + cf.get('fkind', '')]

PROPS = {}
NOT_YET = {}

PROPS['C16'] = dict(
    module='FlacModel.Props.C16b',
    theorems=['Flac.C16.stream_no_fabrication', 'Flac.C16.stream_results_ascending', 'Flac.C16.no_sync_no_loss_partial',
              'Flac.C16.skipUntilFF_no_ff', 'Flac.C16.no_sync_no_loss', 'Flac.C16.tail_noSync_eof', 'Flac.C16.clean_stream_reads_all',
              'Flac.decodeFrame_sync', 'Flac.decodeFrame_ext', 'Flac.C16.written_frame_standalone', 'Flac.C16.written_stream_reads_back',
              'Flac.C16.accepted_rate_self_describing', 'Flac.C16.streaminfo_only_rate_refused', 'Flac.C16.accepted_bps_self_describing', 'Flac.C16.accepted_block_size_self_describing',
              'Flac.C16.number_wf', 'Flac.C16.stream_writer_header_wf', 'Flac.C16.stream_writer_frame_wf', 'Flac.C16.stream_writer_frame_standalone'],
    components=[StreamRW(), StreamRead()],
    rule='streamrw: 1-6 frames with independently drawn rate/channels/depth/length written by one FlacStreamWriter, '
         'garbage (none / 0xFF-free / with planted FF F8|F9) between them, source segmented (max-N reads or random split points), '
         'read back by FlacStreamReader and by the Lean model of it; non-trivial = at least two results in the sequence; '
         'streamread: random bytes with planted sync codes in both build profiles',
    claim='Theorems over the model of FlacStreamReader::read, for arbitrary (unbounded) input bytes: stream_no_fabrication (every returned frame is the '
          'checksum-valid decoding of a contiguous input range that starts at FF F8|F9; the rest is what follows it), stream_results_ascending, '
          'no_sync_no_loss (bytes that do not contain the sync pattern FF F8|F9 - they may contain 0xFF, even as their last byte - cost no frame: one read() over '
          'garbage ++ frame ++ anything returns exactly that frame and leaves exactly `anything`; uses frame locality decodeFrame_ext and decodeFrame_sync), '
          'clean_stream_reads_all (any sequence of standalone frames with sync-free bytes around them is returned in order, then end of stream; nothing relates one '
          'frame\'s parameters to the next), written_frame_standalone (every frame well-formed WITHOUT STREAMINFO context decodes from its own header alone - from '
          'C01.frame_roundtrip) and written_stream_reads_back (their composition over serialized frames). The model is tied to the code on '
          'every run by generated frame sequences with garbage and source segmentations, compared result by result; writes longer than 65535 samples per channel must be refused. '
          'Writer side (Props/C16b.lean over Model/RateEnc.lean, SampleRate::try_from and the stream writer\'s rate rule regenerated into Gen/RateEnc.lean): accepted_rate_self_describing - every rate '
          'FlacStreamWriter::write accepts gets a header code under which the header alone carries it (the rate condition of FrameWf none); streaminfo_only_rate_refused; accepted_bps_self_describing and accepted_block_size_self_describing the same for the bit depth and the block length (1-65535); stream_writer_header_wf composes them with the minimally coded frame number into headerWfB none (sound for HeaderWf none) for every header the stream writer builds, stream_writer_frame_wf / stream_writer_frame_standalone lift that to the frame: for any accepted parameters, any channel assignment and any subframes the search may produce for them the frame is FrameWf none and decodes from its own bytes alone; the driver predicts the rate, depth and block-size codes '
          'of every frame written (and every refusal) from the requested parameters.',
    note='Trusted: Lean kernel, translate.py, harness. Segmentation independence holds of the model by construction and is only exhibited for the '
         'implementation; bitstream-io/BufRead are modelled, not verified.',
    trusted_base=COMMON_TRUST,
    assumptions=['segmentation independence is a property of the model by construction (the model never sees the split points); '
                 'for the implementation it is exhibited by the correspondence over generated segmentations, not proved',
                 'that FlacStreamWriter emits frames of the domain FrameWf none is tested on every written frame (executable frameWfB, proved sound, plus re-serialization to the same bytes), not proved: the writer side is not modelled'],
)

C01_THEOREMS = ['Flac.C01.stereo_leftside_inverse', 'Flac.C01.stereo_sideright_inverse', 'Flac.C01.stereo_midside_inverse',
                'Flac.C01.wasted_inverse', 'Flac.C01.predict_restore', 'Flac.C01.layout_agree',
                'Flac.C01.rice_fold_neg', 'Flac.C01.rice_fold_pos', 'Flac.C01.fold_unfold']

PROPS['C01'] = dict(
    module='FlacModel.Props.C01e',
    theorems=C01_THEOREMS + ['Flac.C01.frame_roundtrip', 'Flac.C01.frame_roundtrip_checked', 'Flac.decodeFrame_serialize', 'Flac.frameWfB_sound',
                             'Flac.readHeaderFields_write', 'Flac.readSubframe_write', 'Flac.readResidual_write', 'Flac.crc8_self', 'Flac.crc16_self',
                             'Flac.C01.lpc_restores', 'Flac.C01.fixed_restores', 'Flac.C01.wasted_restores', 'Flac.C01.recorrelate_stereo',
                             'Flac.C01.lossless_independent', 'Flac.C01.lossless_stereo',
                             'Flac.C01.declared_total_decodes_all', 'Flac.C01.stream_of_frames_lossless', 'Flac.C14.interrupted_decodes_complete_frames',
                             'Flac.file_head_roundtrip', 'Flac.C01.file_lossless', 'Flac.C07.loop_refines',
                             'Flac.C01.tz32_dvd', 'Flac.C01.wasted_shift_lossless', 'Flac.C01.wasted_allzero_sound',
                             'Flac.C01.absSum_zero_iff', 'Flac.C01.all0_flags_own_channel', 'Flac.C01.all0_constant_lossless'],
    components=[EncFrame('roundtrip'), RoundTripFile()],
    rule='encframe: every length 1..48 (quick) / 1..96 (thorough) x 11 signal shapes x mono/stereo x 6 option sets, plus random '
         '(channels 1-8, depth in the subset codes, lengths around powers of two and block-size codes, all option dimensions); every frame the real '
         'encoder emits is parsed by the model, tested with the executable frameWfB (domain of frame_roundtrip) and re-serialized (must give the same bytes); '
         'rtfile: whole files through byte/sample/channel writers and byte/sample/iterator/channel readers, depths 4-32, short final blocks; '
         'non-trivial = encoded successfully with more than a handful of samples; distinct by case text',
    claim='frame_roundtrip (Proofs/Codec.lean, ~800 lines): for EVERY well-formed frame - any header the format expresses, any number of subframes of all four kinds, '
          'any partitioning, Rice/escape parameters, wasted bits, padding, both profiles, with or without STREAMINFO - the streaming decoder run on the serialized '
          'bytes consumes exactly those bytes, accepts CRC-8 and CRC-16 (crc8_self/crc16_self: a message followed by its CRC has remainder 0, over the tables regenerated '
          'from crc.rs) and returns exactly what the subframes expand to: every bit-level reader inverts its writer (readU/readS/unary/Rice/partition/residual/'
          'subframe/coded number/header). lpc_restores/fixed_restores/wasted_restores/recorrelate_stereo: what the encoder kernels (regenerated from encode.rs) '
          'compute for ANY quantised coefficients, shift and decorrelation mode expands back to the input channel(s); lossless_independent/lossless_stereo compose '
          'them. stream_of_frames_lossless / declared_total_decodes_all: the frame loop of the file readers (Decoder::read_frame driven to the end, with its total-sample accounting, '
          'overshoot and short-block rules) over ANY sequence of well-formed frames whose block sizes add up to the declared total returns exactly the samples of every frame, in order, then a clean '
          'end of stream, whatever follows the last frame (undeclared total: C14.interrupted_decodes_complete_frames with an empty cut). '
          'file_lossless: the metadata section written by write_blocks (model writeBlocks) for any block list headed by a well-formed STREAMINFO with a declared total, followed by any such frame '
          'sequence, is decoded by the file readers\' model fileDecode - fLaC tag, block walk, STREAMINFO, frame loop - to exactly the frames\' samples with that STREAMINFO (file_head_roundtrip for the head). '
          'frameWfB_sound: the executable test the driver runs on real encoder output implies the hypothesis. Plus the mechanism theorems '
          'stereo_*_inverse, wasted_inverse, predict_restore, layout_agree, rice_fold_*/fold_unfold.',
    note='The reader front-ends above the frame loop (C07; loop_refines: their abstract decoder Dec.readFrame is the byte-level frame loop seen frame by frame - same frames, same stop '
         'reason) and the MD5 are not composed into the file-level theorem; '
         'depth-32 stereo (the 33-bit side channel) is proved only at kernel level (C03 wide_*); the choice logic of the encoder (which candidate wins) is '
         'universally quantified, never modelled: that the real encoder emits a frame of the proved domain is checked per generated frame (frameWfB + re-serialization).',
    trusted_base=COMMON_TRUST,
    assumptions=['samples fit the declared depth (hypothesis of the property)', 'f64 LPC analysis is outside the model: theorems hold for every coefficient choice',
                 'the real encoder\'s output lies in the domain FrameWf: tested on every generated frame, not proved'],
)

PROPS['C02'] = dict(
    module='FlacModel.Props.C02b',
    theorems=['Flac.C02.gen_crc8_is_poly07', 'Flac.C02.gen_crc16_is_poly8005', 'Flac.C02.gen_crc8_update_shape',
              'Flac.C02.gen_crc16_update_shape', 'Flac.C02.gen_crc16_one_byte', 'Flac.C02.gen_crc8_one_byte',
              'Flac.C02.crc16_all_messages', 'Flac.C02.crc8_all_messages', 'Flac.CrcEq.step0_xor', 'Flac.CrcEq.fold_xor', 'Flac.C02.residual_exact',
              'Flac.C02.spec_accepts_serialized', 'Flac.parseFrame_serialize',
              'Flac.C02.gen_tables_eq_rfc', 'Flac.C02.gen_write_read_inverse', 'Flac.C02.rfc_layout_is_rchunks'],
    components=[EncFrame('spec')],
    rule='every generated frame of the real encoder (same space as C01) is decoded by the independent L0 decoder Spec.specDecode '
         '(RFC partition layout, every MUST of section 9, bit-serial CRC-8/CRC-16, exact integer reconstruction) which must accept it, consume exactly '
         'the frame, read the declared rate/depth/channels/frame number and reproduce the input PCM; non-trivial = encoded frame with more than a handful of samples',
    claim='spec_accepts_serialized: the serialization of EVERY frame that is well-formed and meets the additional MUSTs of RFC 9639 section 9 (the executable predicates Spec.frameWf / '
          'Spec.frameSamplesFit: reserved bit clear, depth >= 4, zero padding, 36-bit number, residual range, every reconstructed sample within its depth) is accepted by the independent RFC-level '
          'decoder, which consumes all bytes and reconstructs the specified samples (parseFrame_serialize + the all-messages CRC theorems); residual_exact: the LPC residual encode_residuals records '
          'is the exact difference sample - prediction (regenerated kernel), so exact reconstruction returns the sample. '
          'Obligations re-proved on every run against definitions regenerated from the source: both CRC tables equal the tables of the RFC polynomials '
          '(all 256 entries, decide +kernel against a bit-serial LFSR), crc16_all_messages / crc8_all_messages: the table-driven checksums equal the bit-serial '
          'LFSRs of the RFC polynomials on EVERY message of every length (linearity of the LFSR step over xor, Proofs/CrcEq.lean), every header code '
          'table equals the RFC table, writer codes are read back to the same values, and the slicing the encoder keeps is the RFC partition layout '
          '(rfc_layout_is_rchunks). That each frame the real encoder emits IS such a serialization is tested per output (frameWfB, re-serialization to the same bytes, and the L0 verdict itself), '
          'not proved: the encoder\'s search is not modelled.',
    note='L0 is my reading of RFC 9639 (no network); whole-file rules (consecutive numbering, non-final block size) are checked under C09.',
    trusted_base=COMMON_TRUST + ['Spec/Rfc.lean as the rendering of RFC 9639 section 9'],
    assumptions=['samples fit the declared depth'],
)

PROPS['C19'] = dict(
    module='FlacModel.Props.C19c',
    theorems=['Flac.C19.subframe_bits_le_verbatim', 'Flac.C19.pick_le_fixed', 'Flac.C19.constant_block_small_partial',
              'Flac.C19.constant_block_small', 'Flac.C19.fixed_zero_candidate_bits', 'Flac.C19.zero_residual_bits',
              'Flac.C19.zero_partition_is_constant', 'Flac.C19.all_zero_is_constant_subframe',
              'Flac.C19.header_bits_le', 'Flac.C19.frame_bytes_bound',
              'Flac.C19.encDiff_const', 'Flac.C19.argminFirst_second', 'Flac.C19.constant_block_fixed_zero',
              'Flac.C19.encResidual_zero', 'Flac.C19.constant_block_fixed_small', 'Flac.C19.constant_block_chosen_small'],
    components=[EncFrame('size')],
    rule='every generated frame of the real encoder is measured against 16 + ceil(sum over channels of (41 + n x depth_i))/8 + 2 bytes '
         '(depth+1 for one channel of a stereo pair); constant blocks against 18 + 12 bytes per channel; shapes include full-scale noise, '
         'alternating extremes and low-amplitude noise designed to defeat the Rice estimate',
    claim='subframe_bits_le_verbatim: for EVERY candidate size (whatever the heuristics produced) the subframe chosen by the fallback comparison '
          'extracted from encode_subframe is no larger than VERBATIM; pick_le_fixed / constant_block_small_partial: the result is never larger than '
          'the FIXED candidate plus a header; constant_block_small: a FIXED candidate whose residual consists of zero-width partitions only (what write_residuals records for an all-zero residual: '
          'zero_partition_is_constant, regenerated from Partition::new; at most encMaxPartitions of them) costs at most 8 + wasted + 4 warm-up samples + 646 bits, so the subframe written for a '
          'constant channel is bounded independently of the block length n, for every LPC candidate and depth; header_bits_le: a frame header is at most 15 bytes + CRC-8; frame_bytes_bound composes them.',
    note='constant_block_fixed_zero (Props/C19b.lean, over Model/FixedPick.lean = the accumulation loop and min_by_key of encode_fixed_subframe): a block of n >= 2 equal non-zero samples is written by '
         'encode_fixed_subframe as FIXED order 1 with all-zero residuals; the driver compares order and residuals of the FIXED subframe the encoder writes for every mono block of equal non-zero samples with fixedPick (model-vs-code correspondence; elsewhere the choice among the FIXED orders is a heuristic no property constrains). constant_block_fixed_small / constant_block_chosen_small (Props/C19c.lean) compose it '
         'with write_residuals (encResidual: every partition of an all-zero residual is the zero-width escape, for EVERY coding method, candidate partition order and Rice search; at most MAX_PARTITIONS parts by C15.candidates_fit) '
         'into the unconditional bound. Which partition order min_by_key keeps in write_residuals is quantified over, not modelled: the driver checks on every generated constant block that each written subframe is CONSTANT or FIXED/LPC over zero-width partitions only, '
         'and the oracle measures the tighter 12 bytes per channel.',
    trusted_base=COMMON_TRUST,
    assumptions=['the recorded candidate size equals the bits later played back (BitRecorder is trusted)'],
)

PROPS['C07'] = dict(
    module='FlacModel.Props.C07',
    theorems=['Flac.C07.readFrame_good', 'Flac.C07.step_exact', 'Flac.C07.reader_exactly_once', 'Flac.C07.fresh_reader_prefix',
              'Flac.C07.eos_idempotent', 'Flac.C07.eos_only_at_end', 'Flac.C07.byte_eq_serialised_samples', 'Flac.C07.chan_eos_idempotent',
              'Flac.C07.chanStep_exact', 'Flac.C07.chan_reader_exactly_once', 'Flac.C07.fresh_chan_reader_prefix'],
    components=[ReaderHist('noseek')],
    rule='12 (quick) / 80 (thorough) files written by the real encoder (1-8 channels, depths 4-32, non-periodic noise, short final blocks, declared and '
         'undeclared totals) x random histories over read(n)/fill/consume(k)/iterate on the byte, sample, iterator and channel readers, both byte orders, '
         'with the underlying source fragmented (1/2/5/17-byte reads or random split points), each history then drained and polled after the end; '
         'judged against an ideal cursor over the PCM and compared op by op with the Lean reader state machines; non-trivial = at least three trace items',
    claim='reader_exactly_once: for EVERY operation list over read/fill/consume on a valid stream the reader state machine never errs and '
          '(everything delivered) ++ (buffer ++ unread frames) = the whole decoded stream - proved by induction over the operation list from the one-step lemma '
          'step_exact and the decoder invariant readFrame_good (end-of-stream accounting against STREAMINFO, short-block rule). eos_idempotent / '
          'chan_eos_idempotent: once nothing remains every further call signals end again; eos_only_at_end: an empty read means everything was delivered; '
          'byte_eq_serialised_samples: byte stream = sample stream serialised at ceil(depth/8) bytes. chan_reader_exactly_once: for EVERY history of fill_buf/consume on the '
          'per-channel reader over rectangular frames and EVERY channel, what left the reader followed by what it still holds is that channel of the whole decoded stream '
          '(the de-interleaved samples). (That the abstract decoder of these state machines - Dec.readFrame over a frame list - is the byte-level frame loop seen frame by frame is '
          'C07.loop_refines, listed under C01 so that this property\'s theorems do not import the byte-level decoder.)',
    note='Independence from how the source fragments its reads is a property of the model by construction (it never sees read boundaries) and is '
         'exhibited for the implementation by fragmenting sources; BufReader/read_exact are trusted.',
    trusted_base=COMMON_TRUST,
    assumptions=['valid stream: non-empty frames, total unknown or equal to the sum of frame lengths, only the last frame <= 14 samples'],
)

PROPS['C06'] = dict(
    module='FlacModel.Props.C06b',
    theorems=['Flac.C06.seek_lands', 'Flac.C06.skipTo_spec', 'Flac.C06.seek_refines_cursor', 'Flac.C06.end_seek_in_bytes',
              'Flac.C06.start_current_targets', 'Flac.C06.lastPointLe_mem', 'Flac.C06.chan_skipTo_spec', 'Flac.C06.chan_seek_lands', 'Flac.C06.finalize_table_truthful', 'Flac.C06.filtered_point_truthful'],
    components=[ReaderHist('seek')],
    rule='same files as C07 with every seek-table policy the encoder offers (off, every frame, every 2/3 frames, every second at low rates, default) x '
         'random interleavings of read/fill/consume with Start/Current/End byte seeks and sample seeks, targets biased to 0, frame boundaries +-1, end-1, end, '
         'end+1, huge; judged against a cursor over the PCM (position returned, data at the position, failure beyond the end)',
    claim='seek_refines_cursor: for every stream whose seek table is truthful and every target, Decoder::seek + the skip-forward loop leave the reader '
          'holding exactly the decoded stream from the requested unit on (bytes for the byte reader, samples for the sample reader) and fail when the target '
          'lies beyond the end, never delivering data from elsewhere; seek_lands: the decoder lands on a frame boundary at or before the target in a good '
          'state; end_seek_in_bytes / start_current_targets: End-relative requests are measured in bytes, Start literally, Current from bytes delivered. '
          'chan_seek_lands: after FlacChannelReader::seek(sample) every channel resumes exactly at PCM frame `sample` of that channel of the whole stream (chan_skipTo_spec: the '
          'skip loop drops the same number of PCM frames from every channel), and the seek fails beyond the end.',
    note='TableTruthful is a hypothesis of the seek theorems; finalize_table_truthful discharges it for every table finalize writes (all three layout cases, every interval policy, any frames of non-zero size), '
         'from C09.written_points_truthful.',
    trusted_base=COMMON_TRUST,
    assumptions=['TableTruthful: every defined seek point names the first sample and byte offset of a real frame'],
)

PROPS['C08'] = dict(
    module='FlacModel.Props.C08b',
    theorems=['Flac.C08.splitFull_spec', 'Flac.C08.decomposition_unique', 'Flac.C08.write_inv', 'Flac.C08.writes_inv',
              'Flac.C08.writer_chunking_indep', 'Flac.C08.finalize_chunking_indep', 'Flac.C08.partial_pcm_frame_dropped',
              'Flac.C08.i24_unsigned', 'Flac.C08.i24_back', 'Flac.C08.sampleOfLE_sampleBytes', 'Flac.C08.toLE_sampleBytes', 'Flac.C08.byteSample_sampleBytes',
              'Flac.C08.byteFrontSamples_serialized', 'Flac.C08.byteFrontMd5_serialized', 'Flac.C08.splitFull_serialized',
              'Flac.C08.byte_frontend_blocks', 'Flac.C08.byte_frontend_md5', 'Flac.C08.byte_order_indep'],
    components=[WriterHist()],
    rule='12 (quick) / 60 (thorough) PCM inputs (1-8 channels, depths 7-32, lengths around the block size) x byte/sample/channel writer x both byte orders x '
         'partitions into write calls (every single split point for inputs up to 80 units, two-split, all-ones, random) x trailing partial PCM frames; the harness '
         'writes the one-call sample-writer reference and compares the files byte for byte; the Lean writer state machine predicts block lengths, total and MD5; '
         'non-trivial = file written',
    claim='writer_chunking_indep / finalize_chunking_indep: for EVERY list of write calls the blocks handed to the encoder (and the carry-over) equal those of one call '
          'with the concatenated input - by the invariant write_inv (induction over the call list) and uniqueness of the block decomposition; '
          'partial_pcm_frame_dropped: what is encoded is exactly the input truncated to whole PCM frames and no empty block is ever encoded. The three front-ends are '
          'instances of one generic machine (unit = byte / sample / PCM frame). Front-end and byte order (C08b, Model/ByteFront.lean = FlacByteWriter + byteorder.rs, with the '
          '24-bit conversions and the direction of bytes_to_le regenerated from the source): byteSample_sampleBytes (bytes_to_iN after bytes_to_le inverts iN_to_bytes of either '
          'byte order on the whole range of 1-4 bytes, incl. the crate\'s own 24-bit rule: i24_unsigned, i24_back); byte_frontend_blocks: the samples serialised in either byte '
          'order and cut into write calls anywhere, also inside a sample, reach the encoder as exactly the blocks the sample front-end makes of them in one call; '
          'byte_frontend_md5: the MD5 is fed the little-endian serialisation of exactly those samples whatever the caller\'s byte order; byte_order_indep.',
    note='Byte identity additionally needs the frame encoder to be a function of its block: true modulo the f64 analysis, which is exercised by the reference '
         'comparison on every case (and across runs), not proved. The per-block order of conversion, MD5 update and encoding is a shape tripwire (shapeByteWriterConvertsPerBlock); '
         'the driver predicts lengths, total and MD5 of every fe=byte case through Model/ByteFront.lean.',
    trusted_base=COMMON_TRUST,
    assumptions=['a block is a whole number of PCM frames (q divides F) - true by construction of frame_byte_size / frame_sample_size'],
)

PROPS['C09'] = dict(
    module='FlacModel.Props.C09c',
    theorems=['Flac.C09.record_points', 'Flac.C09.seekpoints_invariant', 'Flac.C09.truePoints_truthful', 'Flac.C09.filter_sublist',
              'Flac.C09.written_points_truthful', 'Flac.C09.points_sorted', 'Flac.C09.finalize_preserves_metadata_len', 'Flac.C09.frame_size_extrema',
              'Flac.C09.placeholders_match', 'Flac.C09.filter_length_key', 'Flac.C09.reserved_slots_exact', 'Flac.C09.regenerated_equals_written_declared',
              'Flac.C09.regenerated_equals_written_padding', 'Flac.C09.regenerate_defined',
              'Flac.C09.md5_input_front_end_independent', 'Flac.C09.md5_input_is_encoded_pcm'],
    components=[EncFile()],
    rule='450 (quick) / 30000 (thorough) files: byte/sample/channel writer x seek policy {off, default 10 s, every 1/2/5 frames, every 1/2/255 s at low rates} x '
         'total declared or discovered at finalize x padding {absent, too small for a table, exactly one/two points, ample, default} x writer pre-positioned at a '
         'non-zero offset, plus the 932068-frame stream that overflows a seek table; the bookkeeping model predicts every STREAMINFO/SEEKTABLE/PADDING field and '
         'the metadata length from the observed frame lengths and sizes; the L0 decoder walks the finished file against its own header',
    claim='seekpoints_invariant (induction over any frame sequence): point i = (samples before, bytes before from the first frame, length of frame i), samples_written = total; '
          'written_points_truthful: every defined point finalize can write, under either interval filter, names a real frame (this discharges C06\'s TableTruthful for files '
          'written by the crate); points_sorted; finalize_preserves_metadata_len: in all three layout cases SEEKTABLE + first PADDING occupy the same bytes after as before, so the '
          'rewrite cannot reach the first frame; frame_size_extrema: recorded min/max are bounds attained within (0, 2^24-1).',
    note='What is hashed (Props/C09c.lean: md5_input_front_end_independent, md5_input_is_encoded_pcm) is the little-endian serialisation of exactly the encoded samples for every front-end, byte order and chunking; that STREAMINFO stores the digest of those bytes (md5 0.8, trusted), truthful channel/rate/depth fields and untouched frames during the header rewrite are decided '
         'by the file-level L0 walk and harness observations on every case, not by a theorem. Regeneration (Props/C09b.lean): reserved_slots_exact, regenerated_equals_written_declared and '
         'regenerated_equals_written_padding show that the table finalize writes is generate_seektable of the frames written, in both layouts; that FrameIterator finds exactly those frames is C01/C16 '
         'and is exhibited by the regen_ok observation of the harness.',
    trusted_base=COMMON_TRUST,
    assumptions=['frame byte sizes are taken from the finished file'],
)

PROPS['C03'] = dict(
    module='FlacModel.Props.C03b',
    theorems=['Flac.C03.spec_accepts_implies_decoder', 'Flac.C03.decSubframes_spec', 'Flac.C03.decodeSub_spec', 'Flac.C03.recorrelate_spec',
              'Flac.C03.readSubframe_agree', 'Flac.CrcEq.crc16_eq_spec', 'Flac.CrcEq.crc8_eq_spec', 'Flac.C03.wrapS32_add_wrap', 'Flac.C03.wrap_add_correct', 'Flac.C03.predict_refines_spec', 'Flac.C03.unfold_is_zigzag',
              'Flac.rchunk_rfc', 'Flac.C03.decLayout_eq_rfc', 'Flac.C03.decLayout_sound', 'Flac.C03.leftside_refines_spec', 'Flac.C03.sideright_refines_spec',
              'Flac.C03.midside_refines_spec', 'Flac.C03.wide_leftside_refines_spec', 'Flac.C03.md5_verify_iff'],
    components=[ValidStreams(('release', 'checked'))],
    rule='1500 (quick) / 60000 (thorough) streams from the Lean generator: blocking strategy, every block-size and sample-rate coding incl. uncommon 8/16-bit and '
         'non-canonical ones, STREAMINFO-referenced depths 4-32, coded numbers up to 2^36-1 in minimal and non-minimal length, per-subframe CONSTANT/VERBATIM/FIXED 0-4/LPC '
         '1-32 with precision up to 15 and shift 0-15, wasted bits on any channel incl. side channels, RICE and RICE2 at any depth, partition orders up to the legal '
         'maximum, Rice/escaped/zero-width partitions, all four channel assignments incl. 33-bit side; residuals derived from target PCM with exact arithmetic; '
         'single frames go through FlacStreamReader, files through the byte/sample/iterator/channel readers and verify_reader (with right, wrong and absent MD5), '
         'in the optimised and the overflow-checked profile; the generator itself is validated by the L1 model on every case',
    claim='spec_accepts_implies_decoder: for EVERY byte string, STREAMINFO context and both build profiles, whatever frame the independent RFC-level decoder Spec.specDecode '
          'accepts (bit-serial CRCs, RFC partition rule, every MUST, exact integer reconstruction), the model of the crate\'s streaming decoder accepts too, consumes the same bytes '
          'and returns exactly the specified samples - depths up to 32 bits for independent channels and up to 31 bits in the decorrelated stereo modes (the 33-bit side channel of 32-bit '
          'stereo: kernel level only). Composed from: readSubframe_agree (the two parsers read the same subframes: soundness + round trip of the format), decodeSub_spec, '
          'recorrelate_spec, crc*_eq_spec (table CRC = bit-serial CRC on every message). Kernel level, both profiles: wrap_add_correct / predict_refines_spec (the prediction loop equals the RFC reconstruction whenever the reconstructed samples fit 32 bits, '
          'even when predictions do not - two\'s-complement wrap is additive), unfold_is_zigzag (u32 Rice join = RFC zig-zag inverse within the RFC residual range), '
          'decLayout_eq_rfc (the rchunks-based layout is the RFC layout for every RFC-legal partition order), {leftside,sideright,midside}_refines_spec and the 33-bit '
          'wide_leftside_refines_spec (channel reconstruction = RFC formulas, no trap), md5_verify_iff.',
    note='32-bit stereo with a 33-bit side channel is proved at kernel level (wide_leftside_refines_spec) and exhibited on generated streams, not composed into the frame theorem; '
         'whole files (frame sequence, MD5 of the PCM) are exhibited on generated valid streams, where the implementation, the L1 model and the expected PCM coincide. '
         'Variable-blocksize numbering is parsed and ignored by the crate.',
    trusted_base=COMMON_TRUST + ['Driver/Gen.lean (generator of valid streams), validated per case against the L1 model'],
    assumptions=['valid stream: every value the format defines fits its declared width'],
)

PROPS['C04'] = dict(
    module='FlacModel.Props.C04',
    theorems=['Flac.C04.np_decLayout', 'Flac.C04.readSubframe_np_facts', 'Flac.C04.np_decodeSub', 'Flac.C04.np_recorrelate',
              'Flac.C04.pnp_readHeaderFields', 'Flac.C04.decode_no_panic', 'Flac.C04.stream_read_no_panic', 'Flac.C04.file_loop_no_panic'],
    components=[InvalidStreams('nopanic'), Damage('nopanic'), BlocksRead(), StructNoPanic()],
    rule='(a) 1500 (quick) / 80000 (thorough) checksum-consistent frames from the Lean generator with one field forced illegal or extreme (22 classes: reserved codes, wasted >= depth, '
         'precision 1111, negative shift, reserved coding methods, any partition order with matching partition count, residuals beyond 32 bits, samples leaving their depth, non-zero padding, '
         'predictor order > block, maximal LPC on full-scale input incl. the 33-bit side path, full-scale stereo, maximal wasted bits, zero-width partitions, one-sample block with order 1, '
         'declared total smaller than the frames); (b) every single-bit flip and every truncation of 8 (40) small valid files plus CRC-16-repaired flips; (c) raw bytes with planted sync codes; '
         'all through FlacStreamReader and the four file readers in the optimised AND the overflow-checked profile, peak allocation per case measured by a counting allocator against '
         '64 MiB + 1 KiB per input byte; the Lean decoder model must predict each outcome (including would-be panic sites); (d) the same malformed frames through the frame-parsing entry points '
         'of stream.rs (Frame::read, Frame::read_subset, Subframe::decode) in both profiles',
    claim='decode_no_panic: for EVERY byte string, STREAMINFO context and both profiles the frame decoder model (header, subframes, residuals, prediction, wasted bits, channel reconstruction, '
          'both CRCs) ends in data or an error - proved function by function (pnp_* for the bit parsers, np_decLayout for the guarded partition length, np_decodeSub from the parsed-field facts '
          'readSubframe_np_facts: wasted < depth and shift < 16, np_recorrelate for the wrapping reconstruction incl. the 33-bit path); stream_read_no_panic and file_loop_no_panic lift it to '
          'FlacStreamReader::read and to the readers\' frame loop (where total - current_sample can no longer underflow). The arithmetic facts come from kernels regenerated from decode.rs.',
    note='Termination holds of the model by construction (total functions); wall-clock termination and the real allocator\'s peak are exhibited by the correspondence run (per-case flush, '
         'counting allocator), not proved. The structural parser (stream.rs) is compared with the decoder under C17 and driven on the malformed-frame classes in both profiles here (component structparse); metadata parsing under C12.',
    trusted_base=COMMON_TRUST,
    assumptions=['bitstream-io readers do not panic on short input (they return UnexpectedEof): trusted, exercised on every truncation point'],
)

PROPS['C05'] = dict(
    module='FlacModel.Props.C05c',
    theorems=['Flac.C05.accepted_frame_is_wellformed', 'Flac.C05.single_bit_flip_rejected', 'Flac.C05.accepted_crc16', 'Flac.C05.declared_total_truncated', 'Flac.C05.unstep_step', 'Flac.C05.step16_inj', 'Flac.C05.step8_inj', 'Flac.C05.crc16_single_bit', 'Flac.C05.crc8_single_bit',
              'Flac.C05.flip_same_extent_rejected'],
    components=[InvalidStreams('reject'), Damage('detect')],
    rule='every single-bit flip in the audio frames and every truncation point of 8 (quick) / 40 (thorough) small valid files (exhaustive per file, about 1200 flips and 150 cuts each): '
         'the decode must end in an error unless the independent L0 decoder accepts the altered bytes with the same PCM, and the samples delivered before the error must be a whole-frame prefix '
         'of the original; plus the must-reject classes of the invalid-frame generator (block-size 0000, rate 1111, depth 011, wasted >= depth, precision 1111, negative shift, coding method >= 2, '
         'order > block, residual beyond 32 bits, one-sample block with partition order 1, frames overshooting the declared total); MD5 verdicts are checked under C03',
    claim='accepted_frame_is_wellformed: for EVERY byte string, whatever the streaming decoder accepts is byte for byte the serialization of a frame that is well-formed against the STREAMINFO '
          'context - legal header codes consistent with their fields and with STREAMINFO, legal subframe types/orders/precisions/shifts/partition layouts, every value inside its field, and BOTH stored '
          'checksums equal to the checksums of the content (crc8_pins/crc16_pins); so reserved or illegal codes, STREAMINFO contradictions and wrong checksums are all rejected. '
          'single_bit_flip_rejected: for the checksum code of crc.rs (tied to the bit-serial CRC on every message by crc16_eq_spec) and frames of any length, a frame that differs in exactly one bit from an '
          'accepted frame is never accepted with the same extent, in either profile. declared_total_truncated: the readers\' frame loop over a stream with a declared total that is cut anywhere inside '
          'a frame delivers exactly the samples of the frames complete before the cut (a whole-frame prefix of the original audio) and then ends in an error (end of data), never cleanly '
          '(undeclared total: C14.interrupted_decodes_complete_frames). Bit-serial level: both LFSR steps are bijections of the register and separate the two values of the input bit '
          '(algebraic, any width), hence crc16_single_bit / crc8_single_bit / flip_same_extent_rejected.',
    note='A flip that changes the frame extent (e.g. in the block-size code) moves the checksum position; the exhaustive flip/truncation runs against the independent L0 decoder cover those, and '
         'the whole-frame-prefix clause for files. The reserved bit after the sample-size code is skipped by the crate (the model serializer stores it), so it is not among the rejected codes.',
    trusted_base=COMMON_TRUST + ['Spec/Rfc.lean'],
    assumptions=[],
)

PROPS['C17'] = dict(
    module='FlacModel.Props.C17b',
    theorems=['Flac.C17.layouts_agree', 'Flac.C17.readPartitions_length', 'Flac.C17.structLayout_sum', 'Flac.C17.readResidual_length',
              'Flac.C17.predictGo_length', 'Flac.C17.struct_expand_len',
              'Flac.C17.parse_reserializes', 'Flac.C17.struct_parse_reserializes', 'Flac.C17.parse_agrees_with_decoder',
              'Flac.C17.decoder_accepts_implies_parser', 'Flac.parseFrame_serialize', 'Flac.readHeaderFields_sound', 'Flac.readSubframe_sound', 'Flac.readResidual_sound',
              'Flac.crc8_pins', 'Flac.crc16_pins', 'Flac.decodeFrame_serialize'],
    components=[StructCmp()],
    rule='900 (quick) / 40000 (thorough) valid frames and as many checksum-consistent malformed frames from the Lean generators, each given to stream::Frame::read_subset (+ write_subset '
         'and Subframe::decode) and to the streaming decoder; compared: accept/reject, expansion lengths, samples after undoing decorrelation (with the decoder\'s arithmetic width), and '
         're-serialised bytes when the coded number is minimal and padding/reserved bits are zero; both build profiles; the Lean model of both parsers must predict every field',
    claim='struct_parse_reserializes (Proofs/CodecConv.lean, ~1000 lines: every bit-level reader is SOUND - what it accepts is its writer\'s output on a well-formed value followed by the '
          'unread rest - for readU/readS/unary/Rice/partitions/residual/subframes of all four kinds/coded number/header; CRC pinning crc8_pins/crc16_pins: remainder 0 forces the stored checksum, '
          'over the tables regenerated from crc.rs): for EVERY byte string, whatever the structural parser accepts with valid checksums is a well-formed frame whose serialization is exactly the bytes consumed. '
          'parse_agrees_with_decoder: its samples (after undoing decorrelation) are what the streaming decoder returns for the same bytes, with the same extent, whatever follows the frame '
          '(through decodeFrame_serialize = C01.frame_roundtrip and frame locality). decoder_accepts_implies_parser: every frame the streaming decoder accepts the structural parser accepts, same header, extent and checksum verdicts. '
          'layouts_agree: for EVERY block size, predictor order and partition order the two parsers slice the residuals identically and refuse the same orders (both layout rules are '
          'extracted from the source); struct_expand_len: every accepted subframe expands to exactly block-size samples.',
    note='The model serializer re-emits the stored coded-number length and padding bits, so the theorem needs no minimal-number/zero-padding caveat; the crate\'s writer always emits the minimal number and zero '
         'padding, which is why the property carries that caveat - exhibited by the correspondence (re-serialised bytes compared exactly under that condition). The converse acceptance direction '
         '(parser accepts => decoder accepts) holds up to arithmetic traps of sample expansion, which the structural parser does not perform: stated as parse_agrees_with_decoder with the expansion as hypothesis. '
         'That stream.rs and decode.rs each follow the one parser skeleton instantiated with their own extracted layout rule is the correspondence\'s job.',
    trusted_base=COMMON_TRUST,
    assumptions=['bytes are below 256 (they are u8 in the code)', 'bits-per-sample <= 32 (type invariant of SignedBitCount<32>)'],
)

PROPS['C14'] = dict(
    module='FlacModel.Props.C14c',
    theorems=['Flac.C14.prefix_decodes_complete_frames', 'Flac.decodeFrame_ext', 'Flac.decodeFrame_cut', 'Flac.local_readHeaderFields', 'Flac.local_decSubframes',
              'Flac.C14.loc_of_decodes', 'Flac.C14.truncated_of_cut', 'Flac.C14.interrupted_decodes_complete_frames', 'Flac.C14.interrupted_file_decodes', 'Flac.file_head_roundtrip',
              'Flac.C14.placeholder_table_wf', 'Flac.C14.provisional_header_reads_back'],
    components=[CrashPrefix()],
    rule='60 (quick) / 3000 (thorough) encodes stopped before finalize (byte/sample/channel writer, declared and undeclared totals, every seek-table policy, with and without padding); '
         'the bytes that reached the stream are cut at EVERY byte (two thirds of the cases) or after every underlying write call, and each prefix is decoded by the sample or channel '
         'reader: the unfinished file must parse into exactly the whole blocks written, the samples delivered must be exactly those of the frames wholly contained in the prefix, end status clean only on a '
         'frame boundary of an undeclared-length stream; the Lean file-decode model predicts count and status for every prefix',
    claim='interrupted_decodes_complete_frames: for ANY frames that each decode using all of their bytes, followed by ANY strict prefix of one more such frame (or nothing), the readers\' frame loop delivers exactly '
          'the complete frames in order and then stops - cleanly on a frame boundary, with an end-of-data error otherwise. No locality hypothesis remains: decodeFrame_ext (a decodable frame decodes identically whatever '
          'follows it) and decodeFrame_cut (a strict prefix of a decodable frame fails with end-of-data, in the header or in the body, never with another error or a value) are proved from the left-to-right structure '
          'of every parser (Local: extension, truncation and suffix properties, closed under sequencing; proved for the bit readers, the coded number, the header, Rice partitions, residuals, every subframe kind and the '
          'subframe decoder).',
    note='The declared-total variant of the loop (remaining-sample bookkeeping) is C05c.declared_total_truncated; provisional_header_reads_back (Props/C14c.lean): STREAMINFO + an all-placeholder SEEKTABLE of any admissible size + optional PADDING is read back as written whatever follows (from C11.blocklist_roundtrip), so the interrupted file can be opened; the crash component exercises both on the real code.',
    trusted_base=COMMON_TRUST,
    assumptions=[],
)

PROPS['C15'] = dict(
    module='FlacModel.Props.C15b',
    theorems=['Flac.C15.ctor_total', 'Flac.C15.documented_values_accepted', 'Flac.C15.declared_length_contract', 'Flac.C15.undeclared_records_count', 'Flac.C15.candidates_fit', 'Flac.C15.candidates_nonempty'],
    components=[CtorGrid()],
    rule='the boundary grid of every constructor parameter (depth 0,1,2,...,32,33,64; channels 0,1,2,8,9,255; rate 0,1,44100,2^20-1,2^20,4e9; block size 0,15,16,17,4096,65535; LPC none,0,1,8,31,32,33; '
         'partition order 0,5,15,16), one at a time and randomly crossed, for the byte, sample and channel writers, each followed by a fill history that under-, exactly- or over-fills a declared '
         'length (or declares none, zero or a non-divisible one), in the optimised and the overflow-checked profile; the documented maxima together with blocks long enough for the LPC analysis to run',
    claim='ctor_total: for EVERY argument combination the constructor decision logic returns a writer or an error (zero channels and a 1-bit depth included; the two facts it needs - exact_div refuses a zero '
          'divisor, STREAMINFO can write depth 1 - are extracted from the source); documented_values_accepted: every documented value is accepted and LPC order 32 satisfies the autocorrelation assertion; '
          'declared_length_contract (induction over any block sequence): crossing the declared total is refused at the block that crosses, ending short is refused at finalize, ending exactly succeeds; '
          'undeclared_records_count.',
    note='That a writer built from documented values then encodes successfully relies on C01 (fallback to VERBATIM); it is exhibited by the grid run with real data. Ranges and limits are regenerated from encode.rs.',
    trusted_base=COMMON_TRUST,
    assumptions=[],
)

PROPS['C11'] = dict(
    module='FlacModel.Props.C11b',
    theorems=['Flac.C11.streaminfo_roundtrip', 'Flac.C11.seektable_roundtrip', 'Flac.C11.vorbis_roundtrip', 'Flac.C11.picture_roundtrip', 'Flac.cue_roundtrip',
              'Flac.C11.body_roundtrip', 'Flac.C11.block_roundtrip', 'Flac.C11.blocklist_roundtrip', 'Flac.C11.reported_size_eq_written',
              'Flac.C11.body_no_panic', 'Flac.C11.seektable_single', 'Flac.C11.md5_some_zero_not_roundtrip',
              'Flac.C11.parseBody_sound', 'Flac.C11.parseCue_sound', 'Flac.C11.readBlock_sound', 'Flac.C11.read_then_write_then_read'],
    components=[BlocksWrite(), BlocksRead()],
    rule='block lists as literals built through the public constructors: every block kind alone at its extremes (1-bit and 32-bit STREAMINFO, out-of-range fields, all-zero MD5, 2^24-1 byte padding/application/'
         'comment/picture bodies and one byte more, seek tables with placeholders and offsets at 2^64-2 / 2^64-1, arbitrary UTF-8 comments, CD-DA and non-CD-DA cue sheets at 99/254 tracks and 100/255 index points and '
         'one more, ISRC and catalog variants, cue sheets imported from text), random legal lists and lists breaking the single-instance/ordering rules; byte-level metadata sections (valid, bit-flipped, truncated, '
         'header surgery on type/size/last, oversized declared lengths), each read, described, written again and re-read; both build profiles',
    claim='blocklist_roundtrip: for EVERY block list of values the public types admit (blockWf: field widths, UTF-8 strings, contiguous seek tables, constructible cue sheets of any number of tracks/index points) '
          'whose write succeeds, reading the written bytes (followed by anything) returns the same list and consumes exactly the bytes written; built from body_roundtrip for each of the seven block kinds '
          '(cue_roundtrip by induction over tracks and index points, vorbis/seektable by induction over fields/points, STREAMINFO by 144-bit arithmetic). reported_size_eq_written: bytes() = body bytes written, total = +4. '
          'body_no_panic: the writer\'s unwraps (8-bit track and index counts, 1-bit depth) cannot fail on admitted values (uses the regenerated limits 99/254/100/255). seektable_single: two SEEKTABLEs are refused. '
          'md5_some_zero_not_roundtrip: the recorded known finding, proved as a negative witness.',
    note='read_then_write_then_read: the converse - ANY byte sequence the reader accepts yields a list the writer accepts (every parsed block satisfies blockWf and is re-serialised to exactly the size that was read: parseBody_sound for all seven kinds) and reading the writer\'s output returns an equal list. '
         'The model of the block codec is hand-written; limits, type codes, padding widths and the fix-shaped facts (ISRC length rule, catalog length rule, u64::MAX seek point rule, index capacity) are regenerated from the source.',
    trusted_base=COMMON_TRUST,
    assumptions=['bitstream-io read_to_vec / LimitedReader semantics as modelled by takeBytes (EOF when the declared size exceeds what is left)'],
)

PROPS['C10'] = dict(
    module='FlacModel.Props.C10',
    theorems=['Flac.C10.update_error_untouched', 'Flac.C10.update_preserves_frames', 'Flac.C10.update_inplace_length', 'Flac.C10.update_inplace_readback',
              'Flac.C10.update_rebuilt_shape', 'Flac.C10.history_preserves_frames', 'Flac.C10.adjust_writeBlocks', 'Flac.C10.readBlocks_used_le'],
    components=[UpdateHist()],
    rule='histories of 1-4 successive update_file calls on files with zero, one, two or three PADDING blocks (also of size 0), each edit a script over the public BlockList API (replace/remove the application block, '
         'comments, pictures incl. duplicate icons that fail validation, set/add/remove padding, change STREAMINFO, fail in the callback) with sizes sweeping -8..+8 bytes around the first padding size; in the thorough tier '
         'also padding and pictures at the 24-bit limit; every step reports in-place / rebuilt / error, the file length after each step and the final bytes',
    claim='For EVERY file, edit callback and history: update_error_untouched (callback or validation failure: file byte-for-byte untouched); update_preserves_frames / history_preserves_frames (bytes from the first frame onward '
          'unchanged after any sequence of successful updates); update_inplace_length (in-place => same length); update_inplace_readback (in-place => the blocks read back are the edited list with the first PADDING grown/shrunk by '
          'the size difference, occupying exactly the old region; uses C11.blocklist_roundtrip); update_rebuilt_shape (rebuilt => new blocks ++ identical frames). adjust_writeBlocks: resizing the first padding moves the '
          'output length by exactly the difference, for any list.',
    note='The decoded PCM is a function of STREAMINFO and the frame bytes (C03), so identical frame bytes give identical PCM whenever the edit keeps STREAMINFO; edits that rewrite STREAMINFO are exercised by the component only. '
         'update_file is modelled on byte lists (Counter/BufReader/BufWriter plumbing is modelled, not verified; the flush of the in-place path is C13).',
    trusted_base=COMMON_TRUST,
    assumptions=['the edit callback yields values the public types admit (blockWf) for the read-back theorem'],
)

PROPS['C12'] = dict(
    module='FlacModel.Props.C12',
    theorems=['Flac.C12.duration_no_panic', 'Flac.C12.trackRanges_no_panic', 'Flac.C12.trackByteRanges_no_panic', 'Flac.C12.cueDisplay_no_panic',
              'Flac.C12.sniff_no_panic', 'Flac.C12.plteColors_fuel', 'Flac.C12.jpegLoop_fuel', 'Flac.C12.parseMsf_ok', 'Flac.C12.pushIndex_np',
              'Flac.C12.stepTok_np', 'Flac.C12.cueParse_no_panic'],
    components=[BlocksRead(), Accessors(), CueText('total'), Pictures()],
    rule='byte strings as metadata sections (well-formed sections of every block kind incl. sample rate 0 and cue sheets with offsets near 2^64, then bit flips, truncation, block-header surgery, oversized declared lengths, '
         'random bytes) read with a counting allocator; every accessor (duration, decoded_len, channel_mask incl. the comment override, cue-sheet track ranges in samples and bytes, text export, catalog) on every list that parsed; '
         'cue sheet texts (well-formed and 15 malformation classes: reordered/dropped lines, out-of-range numbers, minutes up to 2^64, index points running backwards, non-CD-DA texts with 255-258 index points, Unicode spaces, ...); '
         'PNG/JPEG/GIF headers with extreme depths, palette scans, oversized chunk/segment lengths, truncation; both build profiles',
    claim='For ALL inputs and both profiles the modelled arithmetic cannot trap: duration_no_panic (rate 0 gives None); trackRanges/trackByteRanges/cueDisplay_no_panic on ANY cue sheet value (saturating sums and products); '
          'sniff_no_panic for ANY byte string (PNG depth products, JPEG precision x components in 32 bits; the palette and segment scans terminate: plteColors_fuel / jpegLoop_fuel show the result is independent of the fuel once it '
          'exceeds the input length); cueParse_no_panic for ANY text and stream length: the MM:SS:FF conversion is checked (parseMsf_ok), the offset subtraction is guarded, and the 8-bit index-number successor cannot overflow '
          '(pushIndex_np: invariant "last index number <= points so far" with the regenerated capacities 100/255).',
    note='partial: the allocation bound is measured by the counting allocator on every generated input (peak <= 64 x input + 64 KiB), not proved - the model has no allocator. Infallible-by-type conversions in the reader '
         '(u32 -> usize, 5-bit depth + 1 -> SignedBitCount<32>) are not modelled as panic sites. Hangs: the model functions are total (structural/fuel recursion with fuel-independence theorems); the implementation loops are '
         'tied to them by correspondence.',
    trusted_base=COMMON_TRUST,
    assumptions=['u64 parsing, str::lines/trim/split_once as modelled (validated by the CueText correspondence on Unicode and malformed input)'],
)

PROPS['C20'] = dict(
    module='FlacModel.Props.C20b',
    theorems=['Flac.C20.idx_run', 'Flac.C20.track_body_run', 'Flac.C20.tracks_run', 'Flac.C20.import_exact', 'Flac.C20.other_skipped', 'Flac.C20.ranges_of_import',
              'Flac.C20.export_import_layout', 'Flac.C20.timestamp_value', 'Flac.C12.parseMsf_ok',
              'Flac.C20.trimChars_spacing', 'Flac.C20.classify_spacing'],
    components=[CueText()],
    rule='generated cue sheet texts with the layout they describe: 1-99 tracks, with and without a pre-gap INDEX 00, up to 100 index points per track, increasing MM:SS:FF positions including minutes far above 99, optional '
         'CATALOG / ISRC (with dashes, quoted) / FLAGS PRE lines, FILE/REM lines, arbitrary indentation, trailing blanks, LF and CRLF; the expected structure, track ranges and the export->import result are computed '
         'independently in Python and compared with the implementation; 15 malformation classes run through the same model for agreement',
    claim='import_exact: for EVERY well-formed layout (LayoutOk: first track number 1 at 00:00:00, consecutive track and index numbers, strictly increasing positions, at most 99 tracks and 100 index points, all before the '
          'stream end) the importer run on its classified lines yields exactly the described block: track numbers, index numbers, track offsets at the first index, index offsets relative to it, pre-emphasis, ISRCs, catalog, '
          'lead-in 88200 and the lead-out at the stream length (induction over tracks and over index points, any profile). other_skipped: FILE/REM/unknown lines change nothing. ranges_of_import: track ranges run from each '
          'INDEX 01 to the next and to the stream length. export_import_layout: the lines of display() of an imported sheet import again to the same track/index layout. timestamp_value + parseMsf_ok: the '
          'MM:SS:FF <-> samples conversion at 588 samples per frame is exact and checked.',
    note='The theorems are about interp on classified lines; plus classify_spacing (Props/C20b.lean): the token a line is classified as does not depend on white space (any char::is_whitespace characters) before or after it; '
         'the rest of the lexical layer (str::lines, split_once, integer parsing, the exact text display() prints) is tied to the implementation by the CueText correspondence '
         '(text in, structure out, on both sides) rather than proved.',
    trusted_base=COMMON_TRUST,
    assumptions=['the stream length is a multiple of 588 (CD-DA mode), as the property states'],
)

PROPS['C13'] = dict(
    module='FlacModel.Props.C13b',
    theorems=['Flac.C13.sinkWriteAll_spec', 'Flac.C13.flushBuf_spec', 'Flac.C13.bwWriteAll_spec', 'Flac.C13.chunks_spec', 'Flac.C13.inplace_ok_delivers',
              'Flac.C13.dropped_writer_loses_data', 'Flac.C13.direct_ok_delivers',
              'Flac.C13.folded_accepted', 'Flac.C13.cwWriteAll_spec', 'Flac.C13.cwChunks_spec', 'Flac.C13.frame_ok_delivers', 'Flac.C13.frame_failed_prefix',
              'Flac.C13.frames_ok_deliver', 'Flac.C13.frame_ok_crc16_valid', 'Flac.C13.header_ok_crc8_valid', 'Flac.C13.reads_checksum'],
    components=[Faults()],
    rule='exhaustive failure indices: for several update_file scenarios (in-place and rebuilt, with and without padding) the n-th call for every n up to 14 (quick) / 40 (thorough), on the original or on the rebuilt stream, '
         'counting all calls or only writes / flushes / seeks / reads, failing permanently, once, with Interrupted, or as a 1-byte short write; the same for write_blocks on random block lists (n up to 30/120) and for '
         'encode+finalize through the byte, sample and channel writers (n up to 25/120; short writes of 1 and 3 bytes at each index and sinks that accept at most 1/2/3/7 bytes per call from some call on; compared with the fault-free file); '
         'each run is repeated without the fault to know what a complete result is',
    claim='inplace_ok_delivers: for EVERY failure schedule of the underlying stream (each call independently failing, interrupted or short), every BufWriter capacity and every split of the serialised blocks into writes, '
          'if the in-place write as the current source does it (explicit flush whose result is returned - the shape is regenerated from update_file) reports success then the stream holds exactly the old contents followed '
          'by every byte of the new blocks; dropped_writer_loses_data: the original shape (writer dropped) provably lacks this; direct_ok_delivers: the same for paths that write straight through with `?` (write_blocks, '
          'frames, header rewrite). Invariant: sink contents ++ buffer = everything accepted so far, preserved by every call outcome. '
          'Checksummed path (C13b): CrcWriter::write is modelled with the folded slice regenerated from crc.rs (folded_accepted); cwChunks_spec: after any pieces, under any schedule and whether or not the writes '
          'succeeded, the carried checksum is that of exactly the bytes that reached the stream; frame_ok_delivers / frames_ok_deliver: frames reported written are on the stream whole, each followed by the checksum of its own bytes; '
          'frame_ok_crc16_valid, header_ok_crc8_valid: with the crate\'s tables that means CRC remainder 0 (uses crc16_self/crc8_self); reads_checksum: the same for CrcReader over any segmentation of reads.',
    note='partial: BufWriter and write_all are a hand model of std (modelled, not verified); the harness does not see their internal call pattern, so the correspondence for C13 is the property oracle evaluated on the '
         'real code at every failure index and under short-write sinks (success with a tripped fault must equal the fault-free result; no panics; read errors propagate), not a model-vs-implementation diff. '
         'In the checksummed frame path (C13b) the pieces bitstream-io hands to write_all are a parameter. Endless Interrupted is a hang in both.',
    trusted_base=COMMON_TRUST,
    assumptions=['std::io::BufWriter / Write::write_all semantics as modelled in Model/Io.lean'],
)

class ParCompare(Component):
    """C18: the same cases through the binary built with `--features rayon` (inside pools of 1, 2, 3, 4,
    8 and 16 workers, each several times) and through the serial binary; the finished files must be identical."""
    name = 'parcmp'
    ops = ('wr',)
    profiles = ('release',)
    model = False
    features = 'rayon'
    def cases(self, rng, tier, boost):
        import vlib
        base = []
        for _ in range(self.budget(tier, boost, 40, 600)):
            ch = rng.choice([1, 2, 2, 2, 3, 6, 8]); bps = rng.choice([8, 16, 16, 24, 32]); n = rng.choice([16, 64, 300, 1200 if tier == 'thorough' else 500])
            pcm, shape = gen.pcm_multi(rng, n, ch, bps)
            o = gen.option_fields(rng)
            base.append(f'wr fe={rng.choice(["byte", "sample", "chan"])} ch={ch} bps={bps} rate={rng.choice([44100, 48000, 96000])} pcm={gen.join(pcm)} chunks=- endian=le ' + gen.fields_str(o))
        # numerically sensitive inputs: a pure tone over a full 4096-sample block with the maximal LPC order makes the normal equations
        # ill-conditioned, so a last-bit difference in the autocorrelation (e.g. a reduction whose order depends on the pool) reaches the
        # quantised coefficients and the bytes
        import math
        for bps, ch, per in ((16, 1, 37.0), (24, 1, 101.3), (16, 2, 64.0), (24, 2, 19.7)):
            amp = (1 << (bps - 1)) - 1
            tone = [int(round(amp * 0.9 * math.sin(2 * math.pi * i / per))) for i in range(4096)]
            pcm = tone if ch == 1 else [v for i, x in enumerate(tone) for v in (x, tone[(i * 3) % 4096])]
            base.append(f'wr fe=sample ch={ch} bps={bps} rate=44100 pcm={gen.join(pcm)} chunks=- endian=le lpc=32 po=5')
        serial, herr = vlib.run_harness('release', base)
        out = []
        for c, s_ in zip(base, serial + ['harness-died'] * (len(base) - len(serial))):
            digest = hashlib.sha1(s_.split(' ncalls=')[0].encode()).hexdigest()[:16]
            for th in ([1, 2, 4, 16] if tier == 'quick' else [1, 2, 3, 4, 8, 16]):
                for rep in range(2 if tier == 'quick' else 4):
                    out.append(c + f' threads={th} rep={rep} serial={digest}')
        return out
    def oracle(self, case, impl, profile):
        op, cf = parse_case(case)
        h, cls, f = parse_outcome(impl)
        if h == 'panic':
            return (f'parcmp:panic:{cls}', 'the parallel build panicked: ' + cls)
        if 'parallel=1' not in impl:
            return ('parcmp:not-parallel', 'the harness binary was not built with the rayon feature')
        digest = hashlib.sha1(impl.split(' ncalls=')[0].encode()).hexdigest()[:16]
        if digest != cf['serial']:
            return (f'parcmp:differs', f'with {cf["threads"]} worker threads the finished file differs from the serial build')
        return None
    def nontrivial(self, case, impl):
        return impl.startswith('ok')
    def classify(self, case, impl):
        op, cf = parse_case(case)
        return ['threads=' + cf.get('threads', '?'), 'ch=' + cf.get('ch', '?'), 'outcome=' + impl.split()[0]]

PROPS['C18'] = dict(
    module='FlacModel.Props.C18',
    theorems=['Flac.C18.step_final', 'Flac.C18.run_final', 'Flac.C18.schedule_independent', 'Flac.C18.outputs_agree', 'Flac.C18.pick_is_function', 'Flac.C18.no_shared_mutable_state'],
    components=[ParCompare()],
    rule='the C01 input/option space (1-8 channels, 8-32 bits, every PCM shape, random encoder options, byte/sample/channel writers) encoded by the binary built with --features rayon inside thread pools of '
         '1, 2, 3, 4, 8 and 16 workers, each case repeated 2-4 times per pool size, and by the serial binary; the complete finished files are compared byte for byte',
    claim='schedule_independent: tasks that own disjoint state (each a sequence of atomic steps) end, under EVERY interleaving that runs them to completion and for any number of tasks, in exactly the state serial '
          'execution gives each of them; outputs_agree: hence anything computed from the results (the candidate chosen by written bits, the bytes written) is the same for any two schedules; pick_is_function: the '
          'FIXED-vs-LPC choice is a function of the two bit counts only (regenerated kernel). no_shared_mutable_state: the model\'s premise, regenerated from encode.rs (no Mutex/atomic/RefCell/static mut/unsafe).',
    note='partial: that each closure passed to rayon::join / into_par_iter touches only what it borrows, and that `&mut` borrows are disjoint, is the Rust type system\'s guarantee (trusted), not proved here; the schedules '
         'rayon actually produces cannot be enumerated, so the runtime side is repeated runs across pool sizes compared with the serial build. Work-stealing, thread start-up and the OS scheduler are outside the model.',
    trusted_base=COMMON_TRUST + ['rustc borrow checking (disjoint &mut captures, Send/Sync bounds on the closures)', 'rayon 1.11 join / par_iter (results returned in input order)'],
    assumptions=['the closures are deterministic functions of their captured state'],
)
