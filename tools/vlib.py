"""
vlib.py — shared machinery of ./check (DESIGN §4): translator run, proof build + audit,
harness build, correspondence rounds, verdict, evidence.
"""
import os, sys, re, json, subprocess, time, hashlib, random, fcntl, shutil

VERIF = os.path.dirname(os.path.dirname(os.path.abspath(__file__)))
LEAN = os.path.join(VERIF, 'lean')
HARNESS = os.path.join(VERIF, 'harness')
BUILD = os.path.join(VERIF, '.build')
REPO = os.environ.get('VERIF_REPO', '/repo')
ALLOWED_AXIOMS = {'propext', 'Classical.choice', 'Quot.sound'}

def log(*a):
    print(*a, file=sys.stderr, flush=True)

def sh(cmd, cwd=None, timeout=None, env=None, input=None):
    e = dict(os.environ)
    e['CARGO_NET_OFFLINE'] = 'true'
    if env:
        e.update(env)
    p = subprocess.run(cmd, cwd=cwd, shell=isinstance(cmd, str), capture_output=True, text=True,
                       timeout=timeout, env=e, input=input)
    return p.returncode, p.stdout, p.stderr

class Lock:
    """serialise builds across concurrently running checks"""
    def __init__(self, name):
        os.makedirs(BUILD, exist_ok=True)
        self.path = os.path.join(BUILD, name + '.lock')
    def __enter__(self):
        self.f = open(self.path, 'w')
        fcntl.flock(self.f, fcntl.LOCK_EX)
        return self
    def __exit__(self, *a):
        fcntl.flock(self.f, fcntl.LOCK_UN)
        self.f.close()

# ------------------------------------------------------------------------------------------------
# step 1: translator
# ------------------------------------------------------------------------------------------------
def run_translator():
    os.makedirs(BUILD, exist_ok=True)
    rep = os.path.join(BUILD, 'translate_report.json')
    rc, out, err = sh([sys.executable, os.path.join(VERIF, 'tools', 'translate.py'), '--repo', REPO,
                       '--report', rep])
    try:
        r = json.load(open(rep))
    except Exception:
        r = {'generated': [], 'failed': [{'file': '?', 'item': 'translate.py', 'error': err[-400:]}]}
    return r

def import_closure(module):
    """Lean modules (FlacModel.*, Driver.*) reachable from `module` through `import` lines"""
    seen = set(); todo = [module]
    while todo:
        m = todo.pop()
        if m in seen or not (m.startswith('FlacModel') or m.startswith('Driver')):
            continue
        seen.add(m)
        path = os.path.join(LEAN, *m.split('.')) + '.lean'
        try:
            for l in open(path):
                mm = re.match(r'\s*import\s+(\S+)', l)
                if mm:
                    todo.append(mm.group(1))
        except OSError:
            pass
    return seen

# ------------------------------------------------------------------------------------------------
# step 2: proofs
# ------------------------------------------------------------------------------------------------
def theorem_spans(path):
    """[(name, first_line, last_line)] for theorem/lemma declarations of a Lean file"""
    spans = []
    try:
        lines = open(path).read().split('\n')
    except OSError:
        return spans
    cur = None
    for i, l in enumerate(lines, 1):
        m = re.match(r'\s*(?:@\[[^\]]*\]\s*)?(?:private\s+|protected\s+)?(theorem|lemma|example|def|instance|abbrev|structure|inductive)\s+([^\s:({\[]+)?', l)
        if m and not l.startswith(' ' * 2 + ' '):
            if cur:
                spans.append((cur[0], cur[1], i - 1))
            cur = (m.group(2) or m.group(1), i)
    if cur:
        spans.append((cur[0], cur[1], len(lines)))
    return spans

def lake_build(targets):
    """returns (ok, broken) where broken = [{theorem, file, line, message}]"""
    with Lock('lake'):
        rc, out, err = sh(['lake', 'build'] + targets, cwd=LEAN, timeout=3000)
    text = out + err
    broken = []
    if rc != 0:
        for m in re.finditer(r'error: ([^\s:]+\.lean):(\d+):(\d+): (.*)', text):
            f, line, msg = m.group(1), int(m.group(2)), m.group(4)
            path = os.path.join(LEAN, f) if not os.path.isabs(f) else f
            name = '?'
            for n, a, b in theorem_spans(path):
                if a <= line <= b:
                    name = n
            broken.append({'theorem': name, 'file': f, 'line': line, 'message': msg[:300]})
        if not broken:
            broken.append({'theorem': '?', 'file': '?', 'line': 0, 'message': text[-600:]})
    return rc == 0, broken, text

def audit(module, theorems):
    """#print axioms for every theorem; returns {theorem: [axioms] | None if missing}"""
    os.makedirs(os.path.join(BUILD, 'audit'), exist_ok=True)
    path = os.path.join(BUILD, 'audit', module.replace('.', '_') + '.lean')
    with open(path, 'w') as f:
        f.write(f'import {module}\n')
        for t in theorems:
            f.write(f'#print axioms {t}\n')
    rc, out, err = sh(['lake', 'env', 'lean', path], cwd=LEAN, timeout=1200)
    res = {}
    text = out + err
    for t in theorems:
        short = t
        m = re.search(r"'" + re.escape(short) + r"' depends on axioms: \[([^\]]*)\]", text, flags=re.S)
        if m:
            res[t] = [a.strip() for a in m.group(1).replace('\n', ' ').split(',') if a.strip()]
        elif re.search(r"'" + re.escape(short) + r"' does not depend on any axioms", text):
            res[t] = []
        else:
            res[t] = None
    return res, text

FORBIDDEN = re.compile(r'\b(sorry|admit|native_decide|bv_decide|implemented_by)\b|^\s*axiom\s|\bunsafe\s|maxHeartbeats\s+0\b')

def grep_forbidden():
    hits = []
    for root, _, files in os.walk(os.path.join(LEAN, 'FlacModel')):
        for fn in files:
            if not fn.endswith('.lean'):
                continue
            p = os.path.join(root, fn)
            src = open(p).read()
            # strip comments
            src = re.sub(r'/-.*?-/', lambda m: '\n' * m.group(0).count('\n'), src, flags=re.S)
            for i, l in enumerate(src.split('\n'), 1):
                l2 = re.sub(r'--.*$', '', l)
                l2 = re.sub(r'"[^"]*"', '""', l2)
                if FORBIDDEN.search(l2):
                    hits.append(f'{os.path.relpath(p, LEAN)}:{i}: {l.strip()[:100]}')
    return hits

def leanchecker(module):
    rc, out, err = sh(['lake', 'env', 'leanchecker', module], cwd=LEAN, timeout=3000)
    return rc == 0, (out + err)[-400:]

# ------------------------------------------------------------------------------------------------
# step 3: harness
# ------------------------------------------------------------------------------------------------
def harness_bin(profile):
    return os.path.join(BUILD, 'cargo', 'release' if profile == 'release' else 'checked', 'flacverif')

def build_harness(profile, features=None):
    args = ['cargo', 'build', '--offline', '--profile', 'release' if profile == 'release' else 'checked']
    if features:
        args += ['--features', features, '--target-dir', os.path.join(BUILD, 'cargo-' + features)]
    with Lock('cargo'):
        if not os.path.exists(os.path.join(HARNESS, 'Cargo.lock')):
            shutil.copy(os.path.join(REPO, 'Cargo.lock'), os.path.join(HARNESS, 'Cargo.lock'))
        rc, out, err = sh(args, cwd=HARNESS, timeout=3000)
    if rc != 0:
        return False, err[-1500:]
    return True, ''

def run_harness(profile, case_lines, features=None, timeout=1800):
    b = harness_bin(profile)
    if features:
        b = os.path.join(BUILD, 'cargo-' + features, 'release' if profile == 'release' else 'checked', 'flacverif')
    # the harness prints one line per case and flushes it: a case that produces no line for STALL seconds is a hang of the implementation
    # (cases normally take milliseconds; the longest generated ones - 15 M samples, 16 MiB padding - take seconds)
    import threading, queue
    STALL = int(os.environ.get('VERIF_STALL', '300'))
    p = subprocess.Popen([b, 'run'], stdin=subprocess.PIPE, stdout=subprocess.PIPE, stderr=subprocess.PIPE, text=True)
    def feed():
        try:
            p.stdin.write('\n'.join(case_lines) + '\n')
            p.stdin.close()
        except (BrokenPipeError, OSError):
            pass
    q = queue.Queue()
    def read_out():
        for line in p.stdout:
            q.put(line.rstrip('\n'))
        q.put(None)
    errbuf = []
    def read_err():
        errbuf.append(p.stderr.read())
    for fn in (feed, read_out, read_err):
        threading.Thread(target=fn, daemon=True).start()
    out = []
    t_end = time.time() + timeout
    while True:
        try:
            line = q.get(timeout=min(STALL, max(1, t_end - time.time())))
        except queue.Empty:
            p.kill()
            return out, {'rc': 'hang', 'stderr': f'no outcome for {STALL} s: the case after the last outcome did not return', 'n_out': len(out)}
        if line is None:
            break
        out.append(line)
    rc = p.wait()
    stderr = (errbuf[0] if errbuf else '') or ''
    if rc != 0 or len(out) != len(case_lines):
        # the process died (abort, stack overflow, alloc failure): the case after the last outcome is the culprit
        return out, {'rc': rc, 'stderr': stderr[-500:], 'n_out': len(out)}
    return out, None

def _run_driver_chunk(args):
    b, inp, timeout = args
    p = subprocess.run([b], input=inp, capture_output=True, text=True, timeout=timeout)
    out = p.stdout.split('\n')
    if out and out[-1] == '':
        out.pop()
    return out, p.returncode, p.stderr[-500:]

def run_driver(case_lines, impl_lines, timeout=3600):
    """the model driver is single-threaded: large runs are split over up to 12 processes"""
    b = os.path.join(LEAN, '.lake', 'build', 'bin', 'flacdrv')
    lines = [c + '\t' + i for c, i in zip(case_lines, impl_lines)]
    n = len(lines)
    if n == 0:
        return [], None
    nproc = 1 if n < 400 else min(14, (n + 199) // 200)
    # round-robin: expensive cases (long blocks) cluster in the case list
    chunks = [lines[k::nproc] for k in range(nproc)]
    from concurrent.futures import ThreadPoolExecutor
    with ThreadPoolExecutor(max_workers=nproc) as ex:
        res = list(ex.map(_run_driver_chunk, [(b, '\n'.join(ch) + '\n', timeout) for ch in chunks]))
    out = [None] * n
    for k, (ch, (o, rc, err)) in enumerate(zip(chunks, res)):
        if rc != 0 or len(o) != len(ch):
            # report the first case of this chunk that has no answer
            done = [x for x in out if x is not None]
            return [x if x is not None else 'model-skip @@ -' for x in out[:k + nproc * len(o)]], {'rc': rc, 'stderr': err, 'n_out': k + nproc * len(o)}
        out[k::nproc] = o
    return out, None

# ------------------------------------------------------------------------------------------------
# outcomes
# ------------------------------------------------------------------------------------------------
def parse_outcome(s):
    parts = s.split()
    head = parts[0] if parts else ''
    f = {}
    cls = ''
    rest = parts[1:]
    if head == 'err' and rest:
        cls = rest[0]; rest = rest[1:]
    if head == 'panic':
        return head, ' '.join(parts[1:]), {}
    for kv in rest:
        if '=' in kv:
            k, v = kv.split('=', 1)
            f[k] = v
    return head, cls, f

def parse_case(s):
    parts = s.split()
    f = {}
    for kv in parts[1:]:
        if '=' in kv:
            k, v = kv.split('=', 1)
            f[k] = v
    return parts[0], f

def compare(impl, model, ignore=()):
    """None if they agree, else a short description"""
    ih, ic, iflds = parse_outcome(impl)
    mh, mc, mflds = parse_outcome(model)
    if mh in ('model-skip',):
        return None
    if ih != mh:
        return f'outcome kind differs: impl `{impl[:120]}` model `{model[:120]}`'
    if ih == 'panic':
        return None
    for k, v in mflds.items():
        if k in ignore:
            continue
        if k in iflds and canon_field(k, iflds[k]) != canon_field(k, v):
            return f'field {k} differs: impl {iflds[k][:100]} model {v[:100]}'
    return None

_ERRITEM = re.compile(r'(E/|ERR:)(?!Io\(UnexpectedEof\))[^;]*')

def canon_field(k, v):
    """error classes inside result sequences are compared coarsely (error vs no error; end of
    input stays distinguished because it terminates the sequence)"""
    if k in ('seq', 'trace'):
        return _ERRITEM.sub(lambda m: m.group(1) + '*', v)
    if k in ('dec', 'struct') and v.startswith('err'):
        return 'err'
    if k in ('readback', 'reimport'):
        return v.split(':')[0]
    if k == 'rewritten' and v.startswith(('ERR', 'REREAD')):
        return v.split(':')[0]
    if k == 'steps':
        return ','.join(x.split(':')[0] for x in v.split(','))
    return v

def ints(s):
    if s in ('', '-'):
        return []
    return [int(x) for x in s.split(',')]

def unhex(s):
    return bytes.fromhex(s)

# ------------------------------------------------------------------------------------------------
# known findings, replays, evidence
# ------------------------------------------------------------------------------------------------
def load_known(pid):
    p = os.path.join(VERIF, 'known_findings.json')
    try:
        d = json.load(open(p))
    except Exception:
        return []
    return [k for k in d.get('known', []) if k.get('property') == pid]

OUT = os.environ.get('VERIF_SCRATCH') or VERIF     # mutation runs write their replays/evidence elsewhere

def write_replay(pid, body):
    d = os.path.join(OUT, 'replays', pid)
    os.makedirs(d, exist_ok=True)
    h = hashlib.sha1(json.dumps(body, sort_keys=True).encode()).hexdigest()[:12]
    p = os.path.join(d, h + '.json')
    json.dump(body, open(p, 'w'), indent=1)
    return os.path.relpath(p, VERIF) if OUT == VERIF else p

def write_evidence(pid, ev):
    os.makedirs(os.path.join(OUT, 'evidence'), exist_ok=True)
    json.dump(ev, open(os.path.join(OUT, 'evidence', pid + '.json'), 'w'), indent=1)
