"""
gen.py — structure-aware case generators.  Every random choice comes from the `random.Random`
instance handed in (seeded from VERIF_SEED), so a run replays exactly.
"""
import math

SHAPES = ['zeros', 'const', 'ramp', 'alt', 'noise', 'lownoise', 'wasted', 'poly', 'sine', 'edge', 'steps', 'sticky1w']

def clamp(v, bps):
    lo, hi = -(1 << (bps - 1)), (1 << (bps - 1)) - 1
    return max(lo, min(hi, v))

def pcm_shape(rng, shape, n, bps):
    """n samples of one channel that fit `bps` bits"""
    lo, hi = -(1 << (bps - 1)), (1 << (bps - 1)) - 1
    if shape == 'zeros':
        return [0] * n
    if shape == 'const':
        c = rng.choice([lo, hi, 1, -1, rng.randint(lo, hi)])
        return [c] * n
    if shape == 'ramp':
        a = rng.randint(lo // 2, hi // 2); d = rng.choice([1, -1, 2, 3, rng.randint(-50, 50)])
        return [clamp(a + d * i, bps) for i in range(n)]
    if shape == 'alt':
        return [hi if i % 2 == 0 else lo for i in range(n)]
    if shape == 'noise':
        return [rng.randint(lo, hi) for _ in range(n)]
    if shape == 'lownoise':
        k = max(1, min(bps - 1, rng.choice([1, 2, 3, 5])))
        return [rng.randint(-(1 << k), (1 << k)) if bps > k + 1 else rng.randint(lo, hi) for _ in range(n)]
    if shape == 'wasted':
        w = rng.randint(1, max(1, bps - 1))
        if w >= bps:
            w = bps - 1
        if w <= 0:
            return [rng.randint(lo, hi) for _ in range(n)]
        return [clamp(rng.randint(lo >> w, hi >> w) << w, bps) for _ in range(n)]
    if shape == 'poly':
        deg = rng.randint(1, 4)
        co = [rng.randint(-3, 3) for _ in range(deg + 1)]
        return [clamp(sum(c * (i ** k) for k, c in enumerate(co)), bps) for i in range(n)]
    if shape == 'sine':
        amp = hi * rng.choice([0.1, 0.5, 0.99]); f = rng.choice([0.01, 0.05, 0.3])
        return [clamp(int(amp * math.sin(i * f)), bps) for i in range(n)]
    if shape == 'edge':
        return [rng.choice([lo, hi, lo + 1, hi - 1, 0, -1, 1]) for _ in range(n)]
    if shape == 'period32':
        # one 32-sample pattern repeated with a few LSB of noise: a 32-tap predictor (the last sample of the previous period) beats every
        # shorter one, so an encoder allowed the maximal LPC order picks it
        amp = max(4, hi // 3)
        pat = [rng.randint(-amp, amp) for _ in range(32)]
        return [clamp(pat[i % 32] + rng.randint(-3, 3), bps) for i in range(n)]
    if shape == 'sticky1w':
        # the two even extremes of the depth (exactly one wasted bit), changing a little under half the time: after the shift the
        # first difference is mostly 0 and sometimes twice full scale - a distribution the mean-based Rice estimate codes at
        # more than the sample width
        a, b = hi - 1, lo
        out = []; v = rng.choice([a, b])
        for i in range(n):
            if rng.random() < 0.45:
                v = a if v == b else b
            out.append(v)
        return out
    if shape == 'steps':
        out = []; v = rng.randint(lo // 4, hi // 4)
        for i in range(n):
            if rng.random() < 0.1:
                v = rng.randint(lo, hi)
            out.append(v)
        return out
    raise ValueError(shape)

def pcm_multi(rng, n, ch, bps, shape=None):
    """interleaved PCM of n frames; for 2 channels sometimes stereo-correlated"""
    shape = shape or rng.choice(SHAPES)
    chans = []
    base = pcm_shape(rng, shape, n, bps)
    chans.append(base)
    for c in range(1, ch):
        r = rng.random()
        if r < 0.35:
            chans.append([clamp(x + rng.randint(-2, 2), bps) for x in base])          # correlated
        elif r < 0.45:
            chans.append(list(base))                                                  # identical
        elif r < 0.55:
            chans.append([clamp(-x, bps) for x in base])                              # inverted
        else:
            chans.append(pcm_shape(rng, rng.choice(SHAPES), n, bps))
    if ch >= 2 and rng.random() < 0.2:
        # one channel silent or constant while the others are live (a muted microphone, mono on one side): the
        # per-channel "all zero" shortcuts of the stereo decorrelation are taken for one role only
        c = rng.randrange(ch)
        v = 0 if rng.random() < 0.7 else clamp(rng.choice([1, -1, 1000, -(1 << (bps - 1))]), bps)
        chans[c] = [v] * n
        if chans[1 - c if ch == 2 else (c + 1) % ch] == chans[c]:
            chans[1 - c if ch == 2 else (c + 1) % ch] = pcm_shape(rng, rng.choice(['noise', 'sine', 'ramp']) if {'noise', 'sine', 'ramp'} <= set(SHAPES) else rng.choice(SHAPES), n, bps)
    out = []
    for i in range(n):
        for c in range(ch):
            out.append(chans[c][i])
    return out, shape

def join(xs):
    xs = list(xs)
    return ','.join(str(x) for x in xs) if xs else '-'

SUBSET_RATES = [8000, 16000, 22050, 24000, 32000, 44100, 48000, 88200, 96000, 176400, 192000,
                1000, 5000, 254000, 12345, 65534, 655340, 11, 9990,
                # multiples of 100 Hz that are not whole kHz (no kHz code may be chosen for them), incl. below 1 kHz and at the kHz code's end
                37800, 11100, 64100, 254900, 100, 900]
SUBSET_BPS = [8, 12, 16, 20, 24, 32]

def option_fields(rng, small=True):
    f = {}
    if rng.random() < 0.7:
        f['lpc'] = rng.choice(['none', '1', '2', '8', '12', '31', '32']) if rng.random() < 0.8 else str(rng.randint(1, 32))
    if rng.random() < 0.7:
        f['po'] = str(rng.choice([0, 1, 2, 3, 4, 5, 6, 8, 15]))
    if rng.random() < 0.15:
        f['ms'] = '0'; f['exh'] = '0'         # Options::fast(): the non-exhaustive, no-mid-side decorrelation path
    else:
        if rng.random() < 0.5:
            f['ms'] = str(rng.randint(0, 1))
        if rng.random() < 0.5:
            f['exh'] = str(rng.randint(0, 1))
    if rng.random() < 0.4:
        f['win'] = rng.choice(['rect', 'hann', 'tukey:0.5', 'tukey:0', 'tukey:1', 'tukey:0.01', 'tukey:2', 'tukey:-1'])
    return f

def fields_str(f):
    return ' '.join(f'{k}={v}' for k, v in f.items())

def rand_garbage(rng, n, syncfree):
    """junk between frames.  `syncfree`: no 0xFF followed by 0xF8/0xF9 — single 0xFF bytes and runs of 0xFF
    (also directly in front of the next frame) are allowed and deliberately common"""
    out = [rng.choice([0xFF, 0xFF, 0xF8, 0xF9, 0x00]) if rng.random() < 0.25 else rng.randint(0, 255) for _ in range(n)]
    if rng.random() < 0.4:
        out += [0xFF] * rng.randint(1, 4)
    if syncfree:
        for i in range(len(out) - 1):
            if out[i] == 0xFF and out[i + 1] in (0xF8, 0xF9):
                out[i + 1] = 0xFA
    elif len(out) >= 2 and rng.random() < 0.7:
        i = rng.randint(0, len(out) - 2)
        out[i] = 0xFF; out[i + 1] = rng.choice([0xF8, 0xF9])
    return bytes(out).hex()
