"""
metagen.py — generators for the metadata properties (C10, C11, C12, C13, C20): block literals at
their extremes, byte-level metadata sections (valid + damaged), cue sheet texts with the layout
they describe, image headers, update histories.  All randomness from the Random handed in.
"""
import struct

def hx(b):
    return b.hex() if b else '-'

UTF8_SAMPLES = ['', 'a', 'TITLE=x', 'ARTIST=Ünïcödé', 'k=€\U0001F600', 'WAVEFORMATEXTENSIBLE_CHANNEL_MASK=0x0033',
                'waveformatextensible_channel_mask=0x3F', 'WAVEFORMATEXTENSIBLE_CHANNEL_MASK=0xFFFFFFFFF', 'WAVEFORMATEXTENSIBLE_CHANNEL_MASK=zz',
                'noequals', '=', '==', 'A=' + 'b' * 300, ' ', 'x=\x00']

# ------------------------------------------------------------------------------------------------
# block literals
# ------------------------------------------------------------------------------------------------
def streaminfo_lit(rng, extreme=False):
    bps = rng.choice([1, 2, 8, 16, 24, 32, rng.randint(1, 32)])
    ch = rng.choice([1, 2, 8, rng.randint(1, 8), 9 if rng.random() < 0.1 else 3])
    rate = rng.choice([0, 1, 44100, 1048575, rng.randint(0, 1048575), 1048576 if rng.random() < 0.1 else 8000])
    total = rng.choice([0, 1, 39731748, 2 ** 36 - 1, rng.randint(0, 2 ** 36 - 1), 2 ** 36 if rng.random() < 0.1 else 7])
    mn = rng.choice([0, 16, 4096, 65535]); mx = rng.choice([0, 16, 4096, 65535])
    fmin = rng.choice([0, 1, 2 ** 24 - 1, rng.randint(0, 2 ** 24 - 1)]); fmax = rng.choice([0, 1, 2 ** 24 - 1, rng.randint(0, 2 ** 24 - 1), 2 ** 24 if rng.random() < 0.1 else 9])
    md5 = rng.choice(['none', 'none', bytes(rng.randrange(256) for _ in range(16)).hex(), '00' * 15 + '01', '00' * 16 if rng.random() < 0.15 else 'none'])
    return f'S:{mn}:{mx}:{fmin}:{fmax}:{rate}:{ch}:{bps}:{total}:{md5}'

def utf8_hex(rng):
    s = rng.choice(UTF8_SAMPLES) if rng.random() < 0.7 else ''.join(chr(rng.choice([rng.randint(32, 126), rng.randint(0xA0, 0x7FF), rng.randint(0x800, 0xD7FF), rng.randint(0x10000, 0x10FFFF)])) for _ in range(rng.randint(0, 12)))
    return hx(s.encode('utf-8'))

def seektable_lit(rng):
    n = rng.choice([0, 1, 2, 5, 20])
    pts = []; s = rng.choice([0, 0, 5, 2 ** 40])
    nplace = rng.choice([0, 0, 1, 3])
    for i in range(n):
        pts.append(f'{s}.{rng.choice([0, 1, 2 ** 64 - 1, rng.randint(0, 2 ** 40)])}.{rng.choice([0, 1, 4096, 65535])}')
        s += rng.choice([1, 1, 4096, 2 ** 33])
        if s >= 2 ** 64 - 1:
            break
    if rng.random() < 0.1 and len(pts) >= 2:     # not ascending: cannot be constructed
        pts[1], pts[0] = pts[0], pts[1]
    pts += ['X'] * nplace
    if rng.random() < 0.05 and pts:               # defined after placeholder: cannot be constructed
        pts.append('7.7.7')
    if rng.random() < 0.05:
        pts = [f'{2 ** 64 - rng.choice([1, 2])}.{rng.choice([0, 5])}.{rng.choice([0, 1])}'] + ['X'] * rng.choice([0, 1])
    return 'T:' + (','.join(pts) if pts else '-')

def picture_lit(rng, ptype=None):
    t = ptype if ptype is not None else rng.choice([0, 1, 2, 3, 20, 21, rng.randint(0, 20)])
    data = rng.choice(['-', 'ff', '*100', '*5000', bytes(rng.randrange(256) for _ in range(rng.randint(0, 40))).hex() or '-'])
    return f'I:{t}:{utf8_hex(rng)}:{utf8_hex(rng)}:{rng.choice([0, 1, 2 ** 32 - 1])}:{rng.choice([0, 600, 2 ** 32 - 1])}:{rng.choice([0, 24, 2 ** 32 - 1])}:{rng.choice([0, 0, 256, 2 ** 32 - 1])}:{data}'

def isrc_hex(rng, valid=True):
    good = ['AA6Q72000047', 'zz1x29912345', 'AB-123-45-67890', 'AA-6Q7-20-00047']
    bad = ['zz1x299123456', 'AA6Q720', 'AA6Q7200004', 'AA6Q7200004777', '1A6Q72000047', 'AA6Q7X000047', 'ÄA6Q72000047', 'AA-6Q7-20-0004', '------------', '']
    if valid:
        return rng.choice(['-', '-', hx(rng.choice(good).encode())])
    return hx(rng.choice(good + bad).encode()) if rng.random() < 0.8 else '-'

def cue_struct(rng, cdda=None, valid=True):
    """a structural cue literal; mostly constructible, with occasional rule breaks when not valid"""
    cdda = rng.random() < 0.6 if cdda is None else cdda
    unit = 588 if cdda else 1
    tmax = 99 if cdda else 254
    imax = 100 if cdda else 255
    shape = rng.choice(['small', 'small', 'small', 'maxtracks', 'maxindex', 'overtracks', 'overindex', 'empty'])
    nt = {'small': rng.randint(1, 4), 'maxtracks': tmax, 'maxindex': 1, 'overtracks': tmax + 1, 'overindex': 1, 'empty': 0}[shape]
    tracks = []
    pos = 0      # absolute position of the previous track's last index
    for k in range(nt):
        first0 = rng.random() < 0.4
        ni = {'maxindex': imax, 'overindex': imax + 1}.get(shape, rng.choice([1, 1, 2, 3]))
        ni = max(ni, 2 if first0 else 1)
        toff = 0 if k == 0 else pos + unit * rng.randint(1, 1000)
        idx = []; rel = 0
        for j in range(ni):
            num = j if first0 else j + 1
            idx.append(f'{rel}/{num}')
            rel += unit * rng.randint(1, 50)
        last_rel = int(idx[-1].split('/')[0])
        pos = max(last_rel, toff)   # the crate compares the next track offset with the RELATIVE last index
        number = k + 1
        if not valid and rng.random() < 0.1:
            number = rng.choice([0, k + 2, 255])
        if not valid and rng.random() < 0.1:
            idx[0] = f'{unit}/{idx[0].split("/")[1]}'
        tracks.append(f'{toff}.{number}.{isrc_hex(rng, valid)}.{rng.randint(0, 1)}.{rng.randint(0, 1)}.' + '+'.join(idx))
    cat = rng.choice(['-', '-', '1234567890123']) if cdda else rng.choice(['-', '1', '9' * 120, '7' * 128, '7' * 129 if not valid else '5' * 127])
    if not valid and rng.random() < 0.1:
        cat = rng.choice(['123', '12345678901234', '123456789012a'])
    leadin = rng.choice([88200, 0, 2 ** 64 - 1]) if cdda else 0
    lead_off = rng.choice([pos + unit * rng.randint(1, 100000), 0, unit * (2 ** 64 // unit - 1) if rng.random() < 0.3 else unit * 7])
    if not valid and cdda and rng.random() < 0.1:
        lead_off += 1
    return f'Q:{int(cdda)}:{cat}:{leadin}:{",".join(tracks) if tracks else "-"}:{lead_off}.{isrc_hex(rng, valid)}.{rng.randint(0, 1)}.{rng.randint(0, 1)}'

def big_cue_struct(rng, cdda):
    """offsets near the 64-bit limit (accessor arithmetic)"""
    unit = 588 if cdda else 1
    top = (2 ** 64 - 1) // unit * unit
    t1 = f'0.1.-.0.0.0/0+{top - unit * rng.randint(0, 3)}/1'
    t2 = f'{top - unit * rng.randint(0, 5)}.2.-.0.0.0/1+{unit * rng.randint(1, 10)}/2'
    return f'Q:{int(cdda)}:-:{88200 if cdda else 0}:{rng.choice([t1, t1 + "," + t2])}:{top}.-.0.0'

def optional_block_lit(rng, kind=None):
    kind = kind or rng.choice(['P', 'A', 'T', 'V', 'I', 'Q', 'Q', 'C'])
    if kind == 'P':
        return 'P:' + str(rng.choice([0, 1, 4096, 2 ** 24 - 1 if rng.random() < 0.1 else 17, 2 ** 24 if rng.random() < 0.1 else 3]))
    if kind == 'A':
        d = rng.choice(['-', '00', '*300', bytes(rng.randrange(256) for _ in range(rng.randint(0, 30))).hex() or '-'])
        return f'A:{rng.choice(["72696666", "00000000", "ffffffff", "%08x" % rng.randrange(2 ** 32)])}:{d}'
    if kind == 'T':
        return seektable_lit(rng)
    if kind == 'V':
        n = rng.choice([0, 1, 3, 10])
        fs = [utf8_hex(rng) for _ in range(n)]
        return f'V:{utf8_hex(rng)}:{",".join(fs) if fs else "-"}'
    if kind == 'I':
        return picture_lit(rng)
    if kind == 'Q':
        return cue_struct(rng, valid=rng.random() < 0.8)
    if kind == 'C':
        total, text, _ = cue_text(rng, wellformed=rng.random() < 0.8)
        return f'C:{total}:{hx(text.encode("utf-8"))}'

def block_list(rng):
    """a list literal: mostly legal, sometimes breaking the single-instance / ordering rules"""
    r = rng.random()
    bl = [streaminfo_lit(rng)] + [optional_block_lit(rng) for _ in range(rng.choice([0, 1, 2, 4]))]
    if r < 0.08:
        bl.append(rng.choice([seektable_lit(rng), 'V:76:-', picture_lit(rng, 1), picture_lit(rng, 2)]))
        bl.append(rng.choice([seektable_lit(rng), 'V:76:-', picture_lit(rng, 1), picture_lit(rng, 2)]))
    elif r < 0.12:
        bl = bl[1:]                              # no STREAMINFO
    elif r < 0.16:
        bl.insert(rng.randint(1, len(bl)), streaminfo_lit(rng))
    return ';'.join(bl)

SIZE_LIMIT_LISTS = [
    'S:16:16:0:0:1:1:1:0:none;P:16777215',
    'S:16:16:0:0:1:1:1:0:none;P:16777216',
    'S:16:16:0:0:1:1:1:0:none;A:00000001:*16777211',
    'S:16:16:0:0:1:1:1:0:none;A:00000001:*16777212',
    'S:16:16:0:0:1:1:32:68719476735:' + 'ff' * 16,
    'S:16:16:0:0:1:1:1:0:none;V:*16777207:-',
    'S:16:16:0:0:1:1:1:0:none;V:*16777208:-',
    'S:16:16:0:0:1:1:1:0:none;I:3:-:-:0:0:0:0:*16777183',
    'S:16:16:0:0:1:1:1:0:none;I:3:-:-:0:0:0:0:*16777184',
    'S:16:16:0:0:1:1:1:0:none;V:76:' + ','.join(['41'] * 3000),
]

# ------------------------------------------------------------------------------------------------
# byte-level sections
# ------------------------------------------------------------------------------------------------
def be(n, v):
    return (v % (1 << (8 * n))).to_bytes(n, 'big')

def ser_streaminfo(rng):
    bps = rng.choice([1, 16, 24, 32, rng.randint(1, 32)]); ch = rng.randint(1, 8)
    rate = rng.choice([0, 44100, 1048575]); total = rng.choice([0, 1, 39731748, 588 * 1000, 2 ** 36 - 1])
    # layout: 16+16+24+24+20+3+5+36 = 144 bits
    v = (rng.choice([16, 4096]) << 128) | (rng.choice([16, 4096]) << 112) | (rng.randrange(2 ** 24) << 88) | (rng.randrange(2 ** 24) << 64) | (rate << 44) | ((ch - 1) << 41) | ((bps - 1) << 36) | total
    return v.to_bytes(18, 'big') + (bytes(16) if rng.random() < 0.5 else bytes(rng.randrange(256) for _ in range(16)))

def ser_cue(rng, big=False):
    cdda = rng.random() < 0.6
    unit = 588 if cdda else 1
    cat = (b'1234567890123' if rng.random() < 0.5 else b'') if cdda else rng.choice([b'', b'12', b'9' * 128])
    out = cat.ljust(128, b'\0') + be(8, rng.choice([88200, 0, 2 ** 64 - 1])) + bytes([0x80 if cdda else 0]) + bytes(258)
    nt = rng.choice([0, 1, 2, 3])
    out += bytes([nt + 1])
    pos = 0
    top = (2 ** 64 - 1) // unit * unit
    for k in range(nt):
        toff = 0 if k == 0 else (pos + unit * rng.randint(1, 100))
        if big and k > 0:
            toff = top - unit * rng.randint(0, 4)
        first0 = rng.random() < 0.4
        ni = rng.choice([1, 2, 3]); ni = max(ni, 2 if first0 else 1)
        isrc = rng.choice([bytes(12), b'AA6Q72000047', bytes(12), b'zz1X29912345', b'AA-6Q7-20-00' if rng.random() < 0.1 else bytes(12),
                           # valid UTF-8 whose multi-byte characters straddle the ISRC parser's cut points
                           rng.choice(['A\u00e96Q7200004', 'AA6Q\u00e9200004', 'AA6Q72\u00e90004', '\u20acA6Q720004']).encode() if rng.random() < 0.3 else bytes(12)])
        assert len(isrc) == 12
        out += be(8, toff) + bytes([k + 1]) + isrc + bytes([rng.choice([0, 0x80, 0x40, 0xC0, 0x3F])]) + bytes(13) + bytes([ni])
        rel = 0
        for j in range(ni):
            out += be(8, rel) + bytes([j if first0 else j + 1]) + bytes(3)
            last = rel
            rel += unit * rng.randint(1, 20) if not big else (top - unit * rng.randint(0, 4)) - rel if rel == 0 else unit
            rel = min(rel, top)
        pos = max(last, toff) if not big else last
    out += be(8, rng.choice([min(top, pos + unit * 100), top])) + bytes([170 if cdda else 255]) + bytes(12) + bytes([0]) + bytes(13) + bytes([0])
    return out

def ser_block(rng, kind):
    if kind == 1:
        return bytes(rng.choice([0, 1, 10, 100]))
    if kind == 2:
        return be(4, rng.randrange(2 ** 32)) + bytes(rng.randrange(256) for _ in range(rng.randint(0, 12)))
    if kind == 3:
        out = b''; s = 0
        for i in range(rng.choice([0, 1, 3])):
            out += be(8, s) + be(8, rng.randrange(2 ** 30)) + be(2, rng.randrange(65536)); s += rng.randint(1, 5000)
        for i in range(rng.choice([0, 0, 2])):
            out += be(8, 2 ** 64 - 1) + be(8, rng.choice([0, 5])) + be(2, rng.choice([0, 9]))
        return out
    if kind == 4:
        def s(x): return struct.pack('<I', len(x)) + x
        fs = [rng.choice(UTF8_SAMPLES).encode('utf-8') for _ in range(rng.choice([0, 1, 3]))]
        return s(b'vendor') + struct.pack('<I', len(fs)) + b''.join(s(f) for f in fs)
    if kind == 5:
        return ser_cue(rng, big=rng.random() < 0.3)
    if kind == 6:
        mime = b'image/png'; desc = rng.choice(UTF8_SAMPLES).encode('utf-8')
        data = bytes(rng.randrange(256) for _ in range(rng.randint(0, 10)))
        return be(4, rng.choice([0, 1, 2, 3, 20])) + be(4, len(mime)) + mime + be(4, len(desc)) + desc + be(4, 1) + be(4, 2) + be(4, 24) + be(4, 0) + be(4, len(data)) + data
    return b''

def section(rng):
    """a well-formed metadata section (before damage)"""
    kinds = [rng.choice([1, 2, 3, 4, 5, 5, 6]) for _ in range(rng.choice([0, 1, 2, 3]))]
    blocks = [(0, ser_streaminfo(rng))] + [(k, ser_block(rng, k)) for k in kinds]
    out = b'fLaC'
    for i, (k, body) in enumerate(blocks):
        out += bytes([(0x80 if i == len(blocks) - 1 else 0) | k]) + be(3, len(body)) + body
    return out

def single_instance_cases():
    """deterministic: the once-per-file rules (PNG icon = picture type 1, general icon = type 2, VORBIS_COMMENT, SEEKTABLE),
    every ordered pair and some triples of the picture types 1, 2, 3 and duplicated kinds 3 / 4; returns
    (sections for the reader, literal lists for the writer)"""
    import random, itertools
    rng = random.Random(11)
    si = ser_streaminfo(rng)
    def pic(t):
        mime = b'image/png'
        return be(4, t) + be(4, len(mime)) + mime + be(4, 0) + be(4, 32) + be(4, 32) + be(4, 24) + be(4, 0) + be(4, 2) + b'ab'
    def sec(blocks):
        out = b'fLaC' + bytes([0]) + be(3, 34) + si
        for i, (k, body) in enumerate(blocks):
            out += bytes([(0x80 if i == len(blocks) - 1 else 0) | k]) + be(3, len(body)) + body
        return out
    combos = [list(c) for c in itertools.product([1, 2, 3], repeat=2)] + [[2, 1, 2], [1, 2, 1], [2, 1, 1], [2, 3, 1, 3], [1, 3, 2, 3, 2]]
    secs = [('pictures-' + '-'.join(map(str, c)), sec([(6, pic(t)) for t in c])) for c in combos]
    vc = struct.pack('<I', 1) + b'v' + struct.pack('<I', 0)
    st = be(8, 0) + be(8, 0) + be(2, 16)
    secs += [('two-vorbis', sec([(4, vc), (4, vc)])), ('two-seektables', sec([(3, st), (3, st)])),
             ('vorbis-picture-vorbis', sec([(4, vc), (6, pic(2)), (4, vc)]))]
    lits = []
    for c in combos:
        lits.append('S:4096:4096:0:0:44100:2:16:0:none' + ';' + ';'.join(f'I:{t}:{hx(b"image/png")}:-:32:32:24:0:6162' for t in c))
    return secs, lits

def inflated_sections():
    """deterministic: every declared count / length inside a block body set far beyond the bytes present
    (below 2^32-1 so that a reader that trusts the count dies of the allocation oracle, not of the process)"""
    import random
    rng = random.Random(7)
    si = ser_streaminfo(rng)
    def sec(kind, body, size=None):
        return b'fLaC' + bytes([0]) + be(3, 34) + si + bytes([0x80 | kind]) + be(3, len(body) if size is None else size) + body
    out = []
    bigs = [0x00200000, 0x01000000, 0x04000000, 0x7FFFFFF0]
    for n in bigs:
        le = struct.pack('<I', n)
        # VORBIS_COMMENT: vendor length, field count, field length
        out.append(('vorbis-vendor-len', sec(4, le)))
        out.append(('vorbis-count', sec(4, struct.pack('<I', 0) + le)))
        out.append(('vorbis-count-after-vendor', sec(4, struct.pack('<I', 6) + b'vendor' + le)))
        out.append(('vorbis-count-one-field', sec(4, struct.pack('<I', 0) + le + struct.pack('<I', 3) + b'A=b')))
        out.append(('vorbis-field-len', sec(4, struct.pack('<I', 0) + struct.pack('<I', 1) + le)))
        # PICTURE: mime, description, data lengths
        out.append(('picture-mime-len', sec(6, be(4, 3) + be(4, n))))
        out.append(('picture-desc-len', sec(6, be(4, 3) + be(4, 0) + be(4, n))))
        out.append(('picture-data-len', sec(6, be(4, 3) + be(4, 0) + be(4, 0) + be(4, 1) * 4 + be(4, n))))
        # the same with a block size that claims the bytes exist
        out.append(('vorbis-count-size-claims', sec(4, struct.pack('<I', 0) + le, size=min(n, 2 ** 24 - 1))))
        out.append(('picture-data-size-claims', sec(6, be(4, 3) + be(4, 0) + be(4, 0) + be(4, 1) * 4 + be(4, n), size=min(n, 2 ** 24 - 1))))
    # CUESHEET: track and index counts at 255 with nothing behind them; SEEKTABLE / APPLICATION / PADDING of maximal declared size
    cue_head = bytes(128) + be(8, 0) + bytes([0x80]) + bytes(258)
    out.append(('cue-track-count', sec(5, cue_head + bytes([255]))))
    out.append(('cue-index-count', sec(5, cue_head + bytes([1]) + be(8, 0) + bytes([1]) + bytes(12) + bytes([0]) + bytes(13) + bytes([255]))))
    for k in (1, 2, 3):
        out.append((f'kind{k}-size-max-empty', sec(k, b'', size=2 ** 24 - 1)))
    return out

def damage(rng, b):
    b = bytearray(b)
    r = rng.random()
    if r < 0.25 and len(b) > 0:
        for _ in range(rng.choice([1, 1, 2, 5])):
            i = rng.randrange(len(b)); b[i] ^= 1 << rng.randrange(8)
    elif r < 0.45:
        b = b[:rng.randrange(len(b) + 1)]
    elif r < 0.6 and len(b) > 8:
        # block header surgery: type / size of some block header
        i = 4
        hdrs = []
        while i + 4 <= len(b):
            hdrs.append(i); i += 4 + int.from_bytes(b[i + 1:i + 4], 'big')
        h = rng.choice(hdrs)
        what = rng.choice(['type', 'size+', 'size-', 'sizemax', 'last'])
        if what == 'type': b[h] = (b[h] & 0x80) | rng.choice([7, 126, 127, 0, 1, 2, 3, 4, 5, 6])
        elif what == 'size+': b[h + 1:h + 4] = be(3, min(2 ** 24 - 1, int.from_bytes(b[h + 1:h + 4], 'big') + rng.choice([1, 2, 18, 1000])))
        elif what == 'size-': b[h + 1:h + 4] = be(3, max(0, int.from_bytes(b[h + 1:h + 4], 'big') - rng.choice([1, 2, 18])))
        elif what == 'sizemax': b[h + 1:h + 4] = b'\xff\xff\xff'
        else: b[h] ^= 0x80
    elif r < 0.7:
        b += bytes(rng.randrange(256) for _ in range(rng.randint(1, 40)))
    elif r < 0.8 and len(b) > 12:
        # declared string / data lengths far beyond the block
        i = rng.randrange(4, len(b) - 4); b[i:i + 4] = rng.choice([b'\xff\xff\xff\xff', b'\x7f\xff\xff\xff', b'\x00\xff\xff\xff'])
    elif r < 0.85:
        b = bytearray(rng.randrange(256) for _ in range(rng.randint(0, 60)))
    return bytes(b)

# ------------------------------------------------------------------------------------------------
# cue sheet texts
# ------------------------------------------------------------------------------------------------
WS = [' ', '  ', '\t', '', '    ', ' ', '　 ']

def msf(frames):
    return f'{frames // (75 * 60):02d}:{frames // 75 % 60:02d}:{frames % 75:02d}'

def cue_text(rng, wellformed=True):
    """returns (total_samples, text, expected) ; expected = None for a malformed text, else the
    structural literal the import must produce"""
    nt = rng.choice([1, 1, 2, 3, 7, 99 if rng.random() < 0.1 else 2])
    eol = rng.choice(['\n', '\r\n'])
    lines = []
    if rng.random() < 0.5:
        lines.append('FILE "cdimage.wav" WAVE')
    if rng.random() < 0.3:
        lines.append('REM COMMENT "x"')
    catalog = None
    if rng.random() < 0.4:
        catalog = ''.join(rng.choice('0123456789') for _ in range(13))
        lines.append('CATALOG ' + (catalog if rng.random() < 0.5 else f'"{catalog}"'))
    pos = 0          # in CD frames
    tracks = []
    big = rng.random() < 0.15
    for k in range(nt):
        lines.append(f'TRACK {k + 1:02d} AUDIO' if rng.random() < 0.8 else f'TRACK {k + 1} AUDIO')
        isrc = None; pre = False
        if rng.random() < 0.3:
            isrc = rng.choice(['AA6Q72000047', 'zz1X299123456'[:12], 'AA-6Q7-20-00047'])
            lines.append('ISRC ' + (isrc if rng.random() < 0.5 else f'"{isrc}"'))
        if rng.random() < 0.3:
            pre = True; lines.append('FLAGS PRE')
        first0 = rng.random() < 0.5 and True
        ni = rng.choice([1, 1, 2, 3, 100 if rng.random() < 0.05 else 2])
        if first0: ni = max(ni, 2)
        ni = min(ni, 100)
        idx = []
        for j in range(ni):
            if not (k == 0 and j == 0):
                pos += rng.choice([1, 75, 150, 4500 * 3 + 2, rng.randint(1, 30000)]) * (5000 if big else 1)
            num = j if first0 else j + 1
            idx.append((num, pos))
            lines.append(f'INDEX {num:02d} {msf(pos)}')
        tracks.append((k + 1, isrc, pre, idx))
    total = (pos + rng.choice([1, 75 * 60, 100000])) * 588
    expected = None
    if wellformed:
        tl = []
        for (n, isrc, pre, idx) in tracks:
            base = idx[0][1]
            tl.append(f'{base * 588}.{n}.{hx(isrc.replace("-", "").encode()) if isrc else "-"}.0.{int(pre)}.' + '+'.join(f'{(p - base) * 588}/{num}' for num, p in idx))
        expected = f'Q:1:{catalog or "-"}:88200:{",".join(tl)}:{total}.-.0.0'
    else:
        m = rng.choice(['quotes', 'swap', 'dropindex', 'badnum', 'hugemin', 'backwards', 'dupcat', 'lateflags', 'isrcbad', 'short', 'noncdda', 'index255', 'garbage', 'secs', 'trackgap', 'nolines'])
        if m == 'quotes':
            # quoting corner cases of CATALOG / ISRC values: lone quote, empty quotes, unbalanced, doubled
            q = rng.choice(['"', '""', '"""', '"1234567890123', '1234567890123"', '" "', "'1234567890123'", '"AA6Q72000047""'])
            lines.insert(rng.randrange(len(lines) + 1), rng.choice(['CATALOG ', 'ISRC ']) + q)
        elif m == 'swap' and len(lines) > 2:
            i = rng.randrange(len(lines) - 1); lines[i], lines[i + 1] = lines[i + 1], lines[i]
        elif m == 'dropindex':
            lines = [l for l in lines if not (l.startswith('INDEX') and rng.random() < 0.5)]
        elif m == 'badnum':
            i = rng.randrange(len(lines)); lines[i] = lines[i].replace('0', rng.choice(['x', '-1', '+0', '256', '999', '']), 1)
        elif m == 'hugemin':
            lines.append(f'INDEX {rng.choice(["02", "03", "99"])} {rng.choice(["99999999999999999999", "18446744073709551615", "31371203405969", "31371203405970", "4099999999999999"])}:00:00')
        elif m == 'backwards':
            lines.append(f'INDEX {tracks[-1][3][-1][0] + 1:02d} {msf(max(0, tracks[-1][3][0][1] - rng.choice([1, 75, 100000])))}')
        elif m == 'dupcat':
            lines.insert(0, 'CATALOG 1234567890123'); lines.insert(0, rng.choice(['CATALOG 1234567890123', 'CATALOG', 'CATALOG 12', 'CATALOG  1234567890123']))
        elif m == 'lateflags':
            lines.append(rng.choice(['FLAGS PRE', 'ISRC AA6Q72000047', 'FLAGS DCP', 'FLAGS  PRE']))
        elif m == 'isrcbad':
            lines.insert(rng.randrange(len(lines) + 1), 'ISRC ' + rng.choice(['AA6Q720', 'AA6Q7200004', 'AA6Q72000047777', '"AA6Q72000047', 'AÄ6Q72000047', '']))
        elif m == 'short':
            total = rng.choice([0, 588, pos * 588, max(0, pos - 1) * 588])
        elif m == 'noncdda':
            total += rng.randint(1, 587)
            if rng.random() < 0.5:
                lines = ['TRACK 01 AUDIO', 'INDEX 01 0'] + [f'INDEX {i:02d} {i * 10}' for i in range(2, rng.choice([3, 255, 256, 257, 258]))]
        elif m == 'index255':
            lines = ['TRACK 01 AUDIO'] + [f'INDEX {i:02d} {msf(i * 3)}' for i in range(0, rng.choice([99, 100, 101, 102]))]
        elif m == 'garbage':
            lines.insert(rng.randrange(len(lines) + 1), ''.join(chr(rng.choice([rng.randint(32, 126), rng.randint(0xA0, 0x2FFF)])) for _ in range(rng.randint(0, 30))))
        elif m == 'secs':
            lines.append(f'INDEX 50 00:{rng.choice([59, 60, 61])}:{rng.choice([74, 75, 76])}')
        elif m == 'trackgap':
            lines.append(f'TRACK {rng.choice([0, nt + 2, 255, 256, 100])} AUDIO'); lines.append(f'INDEX 01 {msf(pos + 10)}')
        elif m == 'nolines':
            lines = rng.choice([[], [''], ['TRACK'], ['TRACK 01'], ['INDEX 01 00:00:00'], ['TRACK 01 AUDIO']])
    text = eol.join(rng.choice(WS[:5] if wellformed or rng.random() < 0.8 else WS) + l + rng.choice(['', ' ', '\t']) for l in lines)
    if rng.random() < 0.7:
        text += eol
    return total, text, expected

def cue_edge_texts():
    """fixed lexical corner cases, always run: every quoting shape of CATALOG / ISRC values, empty and
    one-character arguments of every command, trailing separators"""
    out = []
    dq = chr(34)
    quotes = [dq, dq * 2, dq * 3, dq + ' ' + dq, dq + '1234567890123' + dq, dq + '1234567890123', '1234567890123' + dq,
              dq + 'AA6Q72000047' + dq, dq + 'AA6Q72000047', chr(39)]
    for q in quotes:
        out.append((588 * 1000, 'CATALOG ' + q + '\nTRACK 01 AUDIO\nINDEX 01 00:00:00\n'))
        out.append((588 * 1000, 'TRACK 01 AUDIO\nISRC ' + q + '\nINDEX 01 00:00:00\n'))
        out.append((1001, 'CATALOG ' + q + '\nTRACK 01 AUDIO\nISRC ' + q + '\nINDEX 01 0\n'))
    # ISRC values with a multi-byte character across each of the parser's cut points (2, 5 and 7 bytes in), dashed and plain
    for v in ['A\u00e96Q7200004', 'AA6Q\u00e9200004', 'AA6Q72\u00e90004', 'A\u00e9-6Q7-20-0004', 'AA-6Q\u00e9-20-0004', 'AA-6Q7-2\u00e9-0004',
              '\u00e9A6Q7200004', 'AA6Q7200004\u00e9', '\u20ac6Q72000047', 'AA\u20ac72000047']:
        out.append((588 * 1000, 'TRACK 01 AUDIO\nISRC ' + v + '\nINDEX 01 00:00:00\n'))
        out.append((588 * 1000, 'TRACK 01 AUDIO\nISRC ' + dq + v + dq + '\nINDEX 01 00:00:00\n'))
    for cmd in ['CATALOG', 'TRACK', 'INDEX', 'ISRC', 'FLAGS', 'FILE', '']:
        for arg in ['', ' ', '  ', ' 1', ' 01', ' 01 ', ' 01  00:00:00', ' :', ' ::', ' 01 :', ' 01 ::', ' 01 0:0:0', ' 01 00:00',
                    ' 01 00:00:00:00', ' + +', ' +1 +0:+0:+0']:
            out.append((588 * 1000, 'TRACK 01 AUDIO\n' + cmd + arg + '\nINDEX 01 00:00:00\n' + cmd + arg))
    # capacity corners: a track filled to its last index point (and a sheet to its last track), then one more line
    def idx(lo, hi, fmt):
        return ''.join(f'INDEX {i:02} {fmt(i - lo)}\n' for i in range(lo, hi + 1))
    plain = lambda k: str(k)
    for lo in (0, 1):
        full = 'TRACK 01 AUDIO\n' + idx(lo, 255, plain)
        for extra in ['', 'INDEX 00 300\n', 'INDEX 255 300\n', 'INDEX 256 300\n', 'INDEX 01 300\n', 'INDEX 254 300\n']:
            out.append((1001, full + extra))
    cd = lambda k: msf(k * 75)
    for lo in (0, 1):
        full = 'TRACK 01 AUDIO\n' + idx(lo, 99, cd)
        for extra in ['', 'INDEX 00 00:10:00\n', 'INDEX 99 00:10:00\n', 'INDEX 100 00:10:00\n']:
            out.append((588 * 75 * 4000, full + extra))
    for last, total, pos in ((99, 588 * 75 * 4000, lambda t: msf(t * 75)), (254, 1000001, lambda t: str(t * 10)), (255, 1000001, lambda t: str(t * 10))):
        tracks = ''.join(f'TRACK {t:02} AUDIO\nINDEX 01 {pos(t)}\n' for t in range(1, last + 1))
        for extra in ['', f'TRACK {last + 1} AUDIO\nINDEX 01 {pos(last + 1)}\n', f'TRACK {last} AUDIO\nINDEX 01 {pos(last + 1)}\n']:
            out.append((total, tracks + extra))
    return out

# ------------------------------------------------------------------------------------------------
# image headers
# ------------------------------------------------------------------------------------------------
def png(rng):
    ct = rng.choice([0, 2, 3, 4, 6, 1, 7, 255])
    depth = rng.choice([1, 8, 16, 64, 85, 86, 128, 255])
    out = b'\x89PNG\r\n\x1a\n' + be(4, rng.choice([13, 13, 13, 12, 14])) + rng.choice([b'IHDR', b'IHDR', b'IDAT']) + be(4, rng.randrange(2 ** 32)) + be(4, rng.randrange(2 ** 32)) + bytes([depth, ct, 0, 0, 0]) + be(4, 0)
    if ct == 3 or rng.random() < 0.3:
        for _ in range(rng.choice([0, 1, 3])):
            n = rng.choice([0, 5, 2 ** 32 - 1 if rng.random() < 0.2 else 9])
            out += be(4, n) + rng.choice([b'gAMA', b'tEXt']) + bytes(min(n, 9)) + be(4, 0)
        if rng.random() < 0.7:
            n = rng.choice([0, 3, 768, 7, 2 ** 32 - 1])
            out += be(4, n) + b'PLTE'
    return out

def jpeg(rng):
    out = b'\xff\xd8'
    for _ in range(rng.choice([0, 1, 2, 4])):
        n = rng.choice([2, 4, 16, 0, 1, 65535 if rng.random() < 0.2 else 8])
        out += b'\xff' + bytes([rng.choice([0xE0, 0xDB, 0xC4, 0xFE, 0xFF])]) + be(2, n) + bytes(max(0, min(n, 40) - 2))
    if rng.random() < 0.8:
        out += b'\xff' + bytes([rng.choice([0xC0, 0xC2, 0xCF, 0xC4, 0xC8])]) + be(2, 17) + bytes([rng.choice([8, 12, 16, 64, 255])]) + be(2, rng.randrange(65536)) + be(2, rng.randrange(65536)) + bytes([rng.choice([1, 3, 4, 16, 255])])
    return out

def gif(rng):
    return b'GIF' + rng.choice([b'89a', b'87a', b'xyz']) + struct.pack('<HH', rng.randrange(65536), rng.randrange(65536)) + bytes([rng.randrange(256)])

def image(rng):
    b = rng.choice([png, jpeg, gif])(rng)
    r = rng.random()
    if r < 0.3:
        b = b[:rng.randrange(len(b) + 1)]
    elif r < 0.4:
        b = bytearray(b)
        if b:
            i = rng.randrange(len(b)); b[i] ^= 1 << rng.randrange(8)
        b = bytes(b)
    elif r < 0.45:
        b = bytes(rng.randrange(256) for _ in range(rng.randint(0, 30)))
    return b

# ------------------------------------------------------------------------------------------------
# update histories
# ------------------------------------------------------------------------------------------------
def small_file(rng, paddings, big=0):
    """metadata section with the given padding sizes + fake frame bytes; `big` = size of an extra
    APPLICATION block (metadata beyond one 8 KiB read buffer)"""
    blocks = [(0, ser_streaminfo(rng))]
    if big:
        blocks.append((2, be(4, 9) + bytes(rng.randrange(256) for _ in range(big))))
    if rng.random() < 0.5:
        blocks.append((4, ser_block(rng, 4)))
    for i, p in enumerate(paddings):
        blocks.append((1, bytes(p)))
        if rng.random() < 0.3:
            blocks.append((2, be(4, 7) + bytes(rng.randint(0, 9))))
    out = b'fLaC'
    for i, (k, body) in enumerate(blocks):
        out += bytes([(0x80 if i == len(blocks) - 1 else 0) | k]) + be(3, len(body)) + body
    frames = b'\xff\xf8' + bytes(rng.randrange(256) for _ in range(rng.randint(0, 40)))
    return out, frames

def edit_script(rng, slack):
    """one edit; `slack` = a size around which deltas sweep the exact-fit boundary"""
    ops = []
    for _ in range(rng.choice([1, 1, 2])):
        k = rng.choice(['app', 'app', 'vset', 'pic', 'padset', 'padadd', 'padrm', 'apprm', 'vrm', 'picrm', 'rate', 'fail', 'dup'])
        if k == 'app': ops.append(f'app:0000002a:{max(0, slack + rng.randint(-8, 8))}')
        elif k == 'vset': ops.append('vset:' + ('+'.join(hx(('K=' + 'v' * rng.randint(0, max(1, slack))).encode()) for _ in range(rng.choice([0, 1, 2]))) or '-'))
        elif k == 'pic': ops.append(f'pic:{rng.choice([3, 3, 1, 2])}:{max(0, slack + rng.randint(-8, 8))}')
        elif k == 'padset': ops.append(f'padset:{max(0, slack + rng.randint(-8, 8))}')
        elif k == 'padadd': ops.append(f'padadd:{rng.choice([0, 4, slack])}')
        elif k == 'rate': ops.append(f'rate:{rng.choice([0, 48000])}')
        elif k == 'fail': ops.append('fail' if rng.random() < 0.3 else 'vrm')
        elif k == 'dup': ops.append(rng.choice(['pic:1:2,pic:1:3', 'pic:2:0,pic:2:0', 'pic:3:1,pic:3:1']))
        else: ops.append(k)
    return ','.join(ops)
