use crate::Fields;
use crate::util::*;
use flac_codec::byteorder::{BigEndian, LittleEndian};
use flac_codec::decode::{
    FlacByteReader, FlacChannelReader, FlacSampleReader, FlacStreamReader, Metadata, verify_reader,
};
use flac_codec::encode::{FlacByteWriter, FlacChannelWriter, FlacSampleWriter, FlacStreamWriter};
use std::io::{Cursor, Read, Write};

pub fn dispatch(op: &str, f: &Fields) -> String {
    match op {
        "streamread" => streamread(f),
        "streamrw" => streamrw(f),
        "decfile" => decfile(f),
        "encframe" => encframe(f),
        "wr" => wr(f),
        "structparse" => structparse(f),
        "rt" => rt(f),
        "hist" => hist(f),
        "structcmp" => structcmp(f),
        "crash" => crash(f),
        "ctor" => ctor(f),
        "blocksw" => crate::meta::blocksw(f),
        "blocksr" => crate::meta::blocksr(f),
        "cuetext" => crate::meta::cuetext(f),
        "accessors" => crate::meta::accessors(f),
        "picture" => crate::meta::picture(f),
        "update" => crate::meta::update(f),
        _ => format!("harness-error unknown-op {}", op),
    }
}

fn stream_seq(data: Vec<u8>, splits: Vec<usize>, max: usize, limit: usize) -> String {
    let mut r = FlacStreamReader::new(SplitReader::new(data, splits, max));
    let mut seq = Vec::new();
    loop {
        match r.read() {
            Ok(fb) => {
                seq.push(format!("F/{}/{}/{}/{}", fb.sample_rate, fb.channels, fb.bits_per_sample, join(fb.samples.iter())));
            }
            Err(e) => {
                let c = errclass(&e);
                let eof = c == "Io(UnexpectedEof)";
                seq.push(format!("E/{}", c));
                if eof {
                    break;
                }
            }
        }
        if seq.len() >= limit {
            seq.push("L".to_string());
            break;
        }
    }
    format!("n={} seq={}", seq.len(), seq.join(";"))
}

/// `FlacStreamReader::read` called until end of input; results (frames and errors) in order
fn streamread(f: &Fields) -> String {
    let data = unhex(get(f, "bytes"));
    format!("ok {}", stream_seq(data, ints::<usize>(get(f, "seg")), num::<usize>(f, "max", 0), num::<usize>(f, "limit", 100000)))
}

/// write frames f0..f{nf-1} (`rate:ch:bps:pcm`) with one `FlacStreamWriter`, garbage g0..g{nf}
/// in between, then read the whole stream back
fn streamrw(f: &Fields) -> String {
    let opts = match options(f) {
        Ok(o) => o,
        Err(e) => return format!("err {}", e),
    };
    let nf = num::<usize>(f, "nf", 0);
    let mut stream: Vec<u8> = Vec::new();
    let mut offs = Vec::new();
    let mut lens = Vec::new();
    {
        let mut w = FlacStreamWriter::new(Cursor::new(&mut stream), opts);
        for i in 0..nf {
            let spec = get(f, &format!("f{}", i));
            let parts: Vec<&str> = spec.splitn(4, ':').collect();
            let (rate, ch, bps) = (parts[0].parse::<u32>().unwrap(), parts[1].parse::<u8>().unwrap(), parts[2].parse::<u32>().unwrap());
            let pcm = ints::<i32>(parts[3]);
            match w.write(rate, ch, bps, &pcm) {
                Ok(()) => {}
                Err(e) => return format!("err {} frame={}", errclass(&e), i),
            }
        }
    }
    let clean = stream.clone();
    let has_garbage = (0..=nf).any(|i| !get(f, &format!("g{}", i)).is_empty());
    if has_garbage || f.contains_key("lens") {
        let mut pieces: Vec<Vec<u8>> = Vec::new();
        // boundaries from a structural walk of the clean stream
        let mut cur = Cursor::new(clean.clone());
        let mut bounds = vec![0usize];
        for _ in 0..nf {
            match flac_codec::stream::Frame::read_subset(&mut cur) {
                Ok(_) => bounds.push(cur.position() as usize),
                Err(e) => return format!("err {} stage=walk", errclass(&e)),
            }
        }
        for i in 0..nf {
            pieces.push(clean[bounds[i]..bounds[i + 1]].to_vec());
        }
        stream.clear();
        for i in 0..nf {
            stream.extend_from_slice(&unhex(get(f, &format!("g{}", i))));
            offs.push(stream.len());
            lens.push(pieces[i].len());
            stream.extend_from_slice(&pieces[i]);
        }
        stream.extend_from_slice(&unhex(get(f, &format!("g{}", nf))));
    }
    let seq = stream_seq(stream.clone(), ints::<usize>(get(f, "seg")), num::<usize>(f, "max", 0), num::<usize>(f, "limit", 100000));
    // the 4-bit sample-rate code and the 3-bit depth code of every frame written (third and fourth header byte), for the model of the writer's choice
    let rc = if offs.is_empty() {
        String::new()
    } else {
        format!(" ratecodes={} bpscodes={} bscodes={}", join(offs.iter().map(|o| stream[*o + 2] & 0x0F)), join(offs.iter().map(|o| (stream[*o + 3] >> 1) & 7)), join(offs.iter().map(|o| stream[*o + 2] >> 4)))
    };
    format!("ok stream={} offs={} lens={}{} {}", hex(&stream), join(offs.iter()), join(lens.iter()), rc, seq)
}

fn meta_str<M: Metadata>(m: &M) -> String {
    format!(
        "rate={} ch={} bps={} total={} md5={}",
        m.sample_rate(),
        m.channel_count(),
        m.bits_per_sample(),
        m.total_samples().map(|t| t.to_string()).unwrap_or("none".to_string()),
        m.md5().map(|d| hex(d)).unwrap_or("none".to_string())
    )
}

/// decode a whole file through one reader front-end
fn decfile(f: &Fields) -> String {
    let data = unhex(get(f, "bytes"));
    let splits = ints::<usize>(get(f, "split"));
    let max = num::<usize>(f, "max", 0);
    let src = SplitReader::new(data, splits, max);
    let chunk = num::<usize>(f, "chunk", 4096).max(1);
    let be = get(f, "endian") == "be";
    match get(f, "reader") {
        "byte" => {
            fn go<E: flac_codec::byteorder::Endianness>(src: SplitReader, e: E, chunk: usize) -> String {
                let mut r = match FlacByteReader::endian(src, e) {
                    Ok(r) => r,
                    Err(e) => return format!("err {} stage=open", errclass(&e)),
                };
                let meta = meta_str(&r);
                let mut out = Vec::new();
                let mut buf = vec![0u8; chunk];
                loop {
                    match r.read(&mut buf) {
                        Ok(0) => return format!("ok {} bytes={}", meta, hex(&out)),
                        Ok(n) => out.extend_from_slice(&buf[..n]),
                        Err(e) => return format!("err {} {} bytes={}", ioclass(&e), meta, hex(&out)),
                    }
                }
            }
            if be { go(src, BigEndian, chunk) } else { go(src, LittleEndian, chunk) }
        }
        "sample" => {
            let mut r = match FlacSampleReader::new(src) {
                Ok(r) => r,
                Err(e) => return format!("err {} stage=open", errclass(&e)),
            };
            let meta = meta_str(&r);
            let mut out: Vec<i32> = Vec::new();
            let mut buf = vec![0i32; chunk];
            loop {
                match r.read(&mut buf) {
                    Ok(0) => return format!("ok {} pcm={}", meta, join(out.iter())),
                    Ok(n) => out.extend_from_slice(&buf[..n]),
                    Err(e) => return format!("err {} {} pcm={}", errclass(&e), meta, join(out.iter())),
                }
            }
        }
        "iter" => {
            let r = match FlacSampleReader::new(src) {
                Ok(r) => r,
                Err(e) => return format!("err {} stage=open", errclass(&e)),
            };
            let meta = meta_str(&r);
            let mut out: Vec<i32> = Vec::new();
            for s in r {
                match s {
                    Ok(s) => out.push(s),
                    Err(e) => return format!("err {} {} pcm={}", errclass(&e), meta, join(out.iter())),
                }
            }
            format!("ok {} pcm={}", meta, join(out.iter()))
        }
        "chan" => {
            let mut r = match FlacChannelReader::new(src) {
                Ok(r) => r,
                Err(e) => return format!("err {} stage=open", errclass(&e)),
            };
            let meta = meta_str(&r);
            let mut out: Vec<i32> = Vec::new();
            loop {
                match r.fill_buf() {
                    Ok(chs) => {
                        let n = chs.first().map(|c| c.len()).unwrap_or(0);
                        if n == 0 {
                            return format!("ok {} pcm={}", meta, join(out.iter()));
                        }
                        for i in 0..n {
                            for c in &chs {
                                out.push(c[i]);
                            }
                        }
                        r.consume(n);
                    }
                    Err(e) => return format!("err {} {} pcm={}", errclass(&e), meta, join(out.iter())),
                }
            }
        }
        "verify" => match verify_reader(src) {
            Ok(v) => format!("ok verified={:?}", v),
            Err(e) => format!("err {}", errclass(&e)),
        },
        other => format!("harness-error bad-reader {}", other),
    }
}

/// raw frames through `FlacStreamWriter::write`: `n` preceding frames (same PCM) advance the
/// frame counter, then the frame of interest is written; only that last frame is returned.
fn encframe(f: &Fields) -> String {
    let opts = match options(f) {
        Ok(o) => o,
        Err(e) => return format!("err {}", e),
    };
    let rate = num::<u32>(f, "rate", 44100);
    let ch = num::<u8>(f, "ch", 1);
    let bps = num::<u32>(f, "bps", 16);
    let n = num::<usize>(f, "n", 0);
    let pcm = ints::<i32>(get(f, "pcm"));
    let mut out: Vec<u8> = Vec::new();
    let mut start = 0;
    {
        let mut w = FlacStreamWriter::new(Cursor::new(&mut out), opts);
        for i in 0..=n {
            if i == n {
                start = {
                    // bytes written so far
                    0
                };
            }
            let _ = start;
            if let Err(e) = w.write(rate, ch, bps, &pcm) {
                return format!("err {}{}", errclass(&e), if i < n { " stage=advance" } else { "" });
            }
        }
    }
    // locate the last frame: re-encode the first n frames alone to learn their total length
    if n > 0 {
        let mut pre: Vec<u8> = Vec::new();
        let mut w = FlacStreamWriter::new(Cursor::new(&mut pre), options(f).unwrap());
        for _ in 0..n {
            w.write(rate, ch, bps, &pcm).unwrap();
        }
        drop(w);
        start = pre.len();
    }
    // decode it again with the real stream reader (C01 at frame level)
    let dec = {
        let mut r = FlacStreamReader::new(Cursor::new(out[start..].to_vec()));
        match r.read() {
            Ok(fb) => format!("dec={} drate={} dch={} dbps={}", join(fb.samples.iter()), fb.sample_rate, fb.channels, fb.bits_per_sample),
            Err(e) => format!("dec=ERR:{}", errclass(&e)),
        }
    };
    // `fixedpick`, `wastedpick`: the model prints whether the wasted bits of every independently coded channel are those its regenerated fold
    // determines, and whether a mono FIXED subframe has the order and residuals its `fixedPick` computes; the
    // implementation's side of that comparison is the frame itself, so the harness states the expected value
    format!("ok bytes={} {} fixedpick=ok wastedpick=ok", hex(&out[start..]), dec)
}

/// facts about a finished file read back through the crate's own metadata reader and frame walker
fn file_facts(file: &[u8]) -> String {
    use flac_codec::stream::FrameIterator;
    let mut s = String::new();
    match FrameIterator::new(Cursor::new(file.to_vec())) {
        Ok(it) => {
            s.push_str(&format!(" {} metalen={}", meta_str(&it), it.metadata_len()));
            {
                use flac_codec::metadata::{SeekPoint, SeekTable, Padding};
                let bl = it.metadata();
                let si = bl.streaminfo();
                s.push_str(&format!(
                    " si_minbs={} si_maxbs={} si_minfs={} si_maxfs={}",
                    si.minimum_block_size,
                    si.maximum_block_size,
                    si.minimum_frame_size.map(|x| x.get()).unwrap_or(0),
                    si.maximum_frame_size.map(|x| x.get()).unwrap_or(0)
                ));
                match bl.get::<SeekTable>() {
                    Some(t) => {
                        let pts: Vec<String> = t
                            .points
                            .iter()
                            .map(|p| match p {
                                SeekPoint::Defined { sample_offset, byte_offset, frame_samples } => {
                                    format!("{}:{}:{}", sample_offset, byte_offset, frame_samples)
                                }
                                SeekPoint::Placeholder => "P".to_string(),
                            })
                            .collect();
                        s.push_str(&format!(" seektable={}", if pts.is_empty() { "empty".to_string() } else { pts.join(",") }));
                    }
                    None => s.push_str(" seektable=none"),
                }
                let pads: Vec<String> = bl.get_all::<Padding>().map(|p| u32::from(p.size).to_string()).collect();
                s.push_str(&format!(" pads={}", if pads.is_empty() { "-".to_string() } else { pads.join(",") }));
            }
            let mut lens = Vec::new();
            let mut offs = Vec::new();
            let mut bad = String::new();
            for fr in it {
                match fr {
                    Ok((frame, off)) => {
                        lens.push(u16::from(frame.header.block_size) as u64);
                        offs.push(off);
                    }
                    Err(e) => {
                        bad = format!(" walkerr={}", errclass(&e));
                        break;
                    }
                }
            }
            s.push_str(&format!(" lens={} offs={}{}", join(lens.iter()), join(offs.iter()), bad));
        }
        Err(e) => s.push_str(&format!(" walkopen={}", errclass(&e))),
    }
    s
}

fn finish_file(res: Result<(), String>, file: &[u8]) -> String {
    match res {
        Ok(()) if file.len() > 4_000_000 => format!("ok filelen={}", file.len()),
        Ok(()) => format!("ok file={}{}", hex(file), file_facts(file)),
        Err(e) => format!("err {} file={}", e, hex(file)),
    }
}

/// write a whole file through one writer front-end with a given partition into write calls.
/// fe=byte : pcm = interleaved samples, serialised by the harness at ceil(bps/8) bytes in `endian`,
///           chunks = byte counts;   fe=sample : chunks = sample counts (interleaved);
/// fe=chan : chunks = PCM-frame counts.  A final `fin=0` skips finalize (drop only).
/// The underlying stream is instrumented: `failat=<n> fkind=<perm|intr|once|short:k> fonly=<wfs>`
/// inject a fault; the bytes present just before `finalize` are compared with the finished file.
fn wr(f: &Fields) -> String {
    let (res, io, prefin) = wr_inner(f);
    let start = num::<usize>(f, "start", 0);
    let file = io.data();
    let body = &file[start.min(file.len())..];
    let mut out = finish_file(res.clone(), body);
    {
        let st = io.0.borrow();
        out.push_str(&format!(" ncalls={} tripped={}", st.ncalls, st.tripped));
        if f.contains_key("log") {
            let l: Vec<String> = st.log.iter().map(|(k, a, l)| format!("{}{}:{}", k, a, l)).collect();
            out.push_str(&format!(" iolog={}", if l.is_empty() { "-".to_string() } else { l.join(",") }));
        }
    }
    if res.is_ok() {
        // frames written before finalize must be untouched by the header rewrite, the prefix before
        // the stream start must be untouched, and the metadata region must keep its length
        if let Some(pre) = &prefin {
            let ok = pre.len() <= file.len() && pre[..start.min(pre.len())] == file[..start.min(pre.len())] && {
                use flac_codec::stream::FrameIterator;
                match FrameIterator::new(Cursor::new(body.to_vec())) {
                    Ok(it) => {
                        let ml = it.metadata_len() as usize + start;
                        ml <= pre.len() && pre[ml..] == file[ml..pre.len()]
                    }
                    Err(_) => false,
                }
            };
            out.push_str(&format!(" prefin_ok={}", ok));
        }
        // regenerate the seek table from the finished file with the same interval
        if let Some(sk) = f.get("seek") {
            use flac_codec::encode::{SeekTableInterval, generate_seektable};
            use flac_codec::metadata::{BlockList, SeekPoint, SeekTable};
            let interval = match sk.as_str() {
                t if t.starts_with("frames:") => t[7..].parse::<usize>().ok().and_then(std::num::NonZero::new).map(SeekTableInterval::Frames),
                t if t.starts_with("secs:") => t[5..].parse::<u8>().ok().and_then(std::num::NonZero::new).map(SeekTableInterval::Seconds),
                "default" => Some(SeekTableInterval::default()),
                _ => None,
            };
            if let Some(iv) = interval {
                let have: Option<Vec<SeekPoint>> = BlockList::read(Cursor::new(body.to_vec()))
                    .ok()
                    .and_then(|bl| bl.get::<SeekTable>().map(|t| t.points.iter().filter(|p| matches!(p, SeekPoint::Defined { .. })).cloned().collect()));
                if let Some(have) = have {
                    match generate_seektable(Cursor::new(body.to_vec()), iv) {
                        Ok(t) => {
                            let regen: Vec<SeekPoint> = t.points.iter().cloned().collect();
                            out.push_str(&format!(" regen_ok={}", regen == have));
                        }
                        Err(e) => out.push_str(&format!(" regen_ok=ERR:{}", errclass(&e))),
                    }
                }
            }
        }
    }
    if num::<u8>(f, "ref", 0) != 0 && out.starts_with("ok") {
        // reference: the same PCM (whole PCM frames only) in ONE call of the sample writer
        let mut g = f.clone();
        g.insert("fe".to_string(), "sample".to_string());
        g.insert("chunks".to_string(), "-".to_string());
        g.remove("failat");
        let ch = num::<u8>(f, "ch", 1).max(1) as usize;
        let pcm = ints::<i32>(get(f, "pcm"));
        let whole = &pcm[..pcm.len() - pcm.len() % ch];
        g.insert("pcm".to_string(), join(whole.iter()));
        if f.contains_key("total") && get(f, "total") != "none" {
            g.insert("total".to_string(), whole.len().to_string());
        }
        let (r, rio, _) = wr_inner(&g);
        let rf = rio.data();
        out.push_str(&match r {
            Ok(()) => format!(" sameasref={}", rf[start.min(rf.len())..] == *body),
            Err(e) => format!(" sameasref=referr:{}", e),
        });
    }
    out
}

fn fault_of(f: &Fields, io: &Shared) {
    if let Some(at) = opt_num::<usize>(f, "failat") {
        let kind = crate::util::fault_kind(get(f, "fkind"));
        io.fail(at, kind, get(f, "fonly"));
    }
}

fn wr_inner(f: &Fields) -> (Result<(), String>, Shared, Option<Vec<u8>>) {
    let start = num::<usize>(f, "start", 0);
    let io = Shared::new(start);
    let opts = match options(f) {
        Ok(o) => o,
        Err(e) => return (Err(e), io, None),
    };
    fault_of(f, &io);
    let rate = num::<u32>(f, "rate", 44100);
    let ch = num::<u8>(f, "ch", 1);
    let bps = num::<u32>(f, "bps", 16);
    let total = opt_num::<u64>(f, "total");
    let pcm = match f.get("pcmgen") {
        // `const:<n>:<v>` = n interleaved samples of value v (for very long streams)
        Some(g) if g.starts_with("const:") => {
            let p: Vec<&str> = g.split(':').collect();
            vec![p[2].parse::<i32>().unwrap(); p[1].parse::<usize>().unwrap()]
        }
        _ => ints::<i32>(get(f, "pcm")),
    };
    let chunks = ints::<usize>(get(f, "chunks"));
    let be = get(f, "endian") == "be";
    let fin = num::<u8>(f, "fin", 1) != 0;
    let mut prefin: Option<Vec<u8>> = None;
    let res: Result<(), String> = match get(f, "fe") {
        "byte" => {
            let bytes_per = (bps.div_ceil(8)) as usize;
            let mut raw = Vec::with_capacity(pcm.len() * bytes_per);
            for s in &pcm {
                let le = s.to_le_bytes();
                if be {
                    for i in (0..bytes_per.min(4)).rev() {
                        raw.push(le[i]);
                    }
                } else {
                    raw.extend_from_slice(&le[..bytes_per.min(4)]);
                }
            }
            #[allow(clippy::too_many_arguments)]
            fn go<E: flac_codec::byteorder::Endianness>(
                io: &Shared, e: E, opts: flac_codec::encode::Options, rate: u32, bps: u32, ch: u8,
                total: Option<u64>, raw: &[u8], chunks: &[usize], fin: bool, prefin: &mut Option<Vec<u8>>,
            ) -> Result<(), String> {
                let mut w = FlacByteWriter::endian(io.clone(), e, opts, rate, bps, ch, total).map_err(|e| errclass(&e))?;
                let mut pos = 0;
                // (on a refused write the stream as it is at that moment is kept: an encode abandoned after the error)
                for c in chunks {
                    let end = (pos + c).min(raw.len());
                    if let Err(e) = w.write_all(&raw[pos..end]) {
                        *prefin = Some(io.data());
                        std::mem::forget(w);
                        return Err(ioclass(&e));
                    }
                    pos = end;
                }
                if pos < raw.len() {
                    if let Err(e) = w.write_all(&raw[pos..]) {
                        *prefin = Some(io.data());
                        std::mem::forget(w);
                        return Err(ioclass(&e));
                    }
                }
                *prefin = Some(io.data());
                if fin { w.finalize().map_err(|e| errclass(&e)) } else { drop(w); Ok(()) }
            }
            if be {
                go(&io, BigEndian, opts, rate, bps, ch, total, &raw, &chunks, fin, &mut prefin)
            } else {
                go(&io, LittleEndian, opts, rate, bps, ch, total, &raw, &chunks, fin, &mut prefin)
            }
        }
        "sample" => (|| {
            let mut w = FlacSampleWriter::new(io.clone(), opts, rate, bps, ch, total).map_err(|e| errclass(&e))?;
            let mut pos = 0;
            for c in &chunks {
                let end = (pos + c).min(pcm.len());
                if let Err(e) = w.write(&pcm[pos..end]) {
                    prefin = Some(io.data());
                    std::mem::forget(w);
                    return Err(errclass(&e));
                }
                pos = end;
            }
            if pos < pcm.len() {
                if let Err(e) = w.write(&pcm[pos..]) {
                    prefin = Some(io.data());
                    std::mem::forget(w);
                    return Err(errclass(&e));
                }
            }
            prefin = Some(io.data());
            if fin { w.finalize().map_err(|e| errclass(&e)) } else { drop(w); Ok(()) }
        })(),
        "chan" => (|| {
            let mut w = FlacChannelWriter::new(io.clone(), opts, rate, bps, ch, total).map_err(|e| errclass(&e))?;
            let chn = ch.max(1) as usize;
            let frames = pcm.len() / chn;
            let planar: Vec<Vec<i32>> = (0..chn).map(|c| (0..frames).map(|i| pcm[i * chn + c]).collect()).collect();
            let mut pos: usize = 0;
            let mut calls: Vec<usize> = chunks.clone();
            calls.push(usize::MAX);
            for c in &calls {
                let end = pos.saturating_add(*c).min(frames);
                if end == pos && *c == usize::MAX {
                    break;
                }
                let part: Vec<&[i32]> = planar.iter().map(|p| &p[pos..end]).collect();
                if let Err(e) = w.write(&part) {
                    prefin = Some(io.data());
                    std::mem::forget(w);
                    return Err(errclass(&e));
                }
                pos = end;
            }
            prefin = Some(io.data());
            if fin { w.finalize().map_err(|e| errclass(&e)) } else { drop(w); Ok(()) }
        })(),
        other => Err(format!("harness-error bad-fe {}", other)),
    };
    (res, io, prefin)
}

/// structural parser (`stream::Frame::read{,_subset}`), re-serialisation and expansion
fn structparse(f: &Fields) -> String {
    use flac_codec::stream::{Frame, SubframeWidth};
    let data = unhex(get(f, "bytes"));
    let si = get(f, "si");
    let mut cur = Cursor::new(data.clone());
    let (frame, streaminfo) = if si == "none" || si.is_empty() {
        match Frame::read_subset(&mut cur) {
            Ok(fr) => (fr, None),
            Err(e) => return format!("err {}", errclass(&e)),
        }
    } else {
        let v = ints::<u64>(si);
        let s = flac_codec::metadata::Streaminfo {
            minimum_block_size: v[3] as u16,
            maximum_block_size: v[3] as u16,
            minimum_frame_size: None,
            maximum_frame_size: None,
            sample_rate: v[0] as u32,
            channels: std::num::NonZero::new(v[1] as u8).unwrap(),
            bits_per_sample: (v[2] as u32).try_into().unwrap(),
            total_samples: None,
            md5: None,
        };
        match Frame::read(&mut cur, &s) {
            Ok(fr) => (fr, Some(s)),
            Err(e) => return format!("err {}", errclass(&e)),
        }
    };
    let used = cur.position() as usize;
    let mut re: Vec<u8> = Vec::new();
    let wres = match &streaminfo {
        None => frame.write_subset(&mut re),
        Some(s) => frame.write(s, &mut re),
    };
    let rewritten = match wres {
        Ok(()) => hex(&re),
        Err(e) => format!("ERR:{}", errclass(&e)),
    };
    let subs: Vec<String> = frame
        .subframes
        .iter()
        .map(|s| match s {
            SubframeWidth::Common(s) => join(s.decode()),
            SubframeWidth::Wide(s) => join(s.decode()),
        })
        .collect();
    format!(
        "ok used={} bs={} rate={} bps={} number={} rewritten={} subs={}",
        used,
        u16::from(frame.header.block_size),
        u32::from(frame.header.sample_rate),
        u32::from(frame.header.bits_per_sample),
        frame.header.frame_number,
        rewritten,
        subs.join(";")
    )
}

/// write a file (as `wr`) and read it back through one reader front-end (as `decfile`)
fn rt(f: &Fields) -> String {
    let w = wr(f);
    let (head, wf) = fields(&w);
    if head != "ok" {
        return format!("{} stage=write", w.split(" file=").next().unwrap_or(&w));
    }
    let file = get(&wf, "file").to_string();
    let mut g = f.clone();
    g.insert("bytes".to_string(), file.clone());
    let d = decfile(&g);
    let mut v = Fields::new();
    v.insert("bytes".to_string(), file.clone());
    v.insert("reader".to_string(), "verify".to_string());
    let ver = decfile(&v);
    let keep = num::<usize>(f, "keepfile", 0) != 0;
    format!("{} verify={}{}", d, ver.replace(' ', "/"), if keep { format!(" file={}", file) } else { String::new() })
}

/// operation histories on the reader front-ends (C06, C07).
/// ops (separated by `;`): `r<n>` read n units, `f` fill_buf, `c<k>` consume k, `x` iterator next,
/// `sS<t>` `sC<d>` `sE<d>` byte seeks, `ss<t>` sample seek.  One trace item per op.
pub fn hist(f: &Fields) -> String {
    use std::io::{BufRead, Seek, SeekFrom};
    let data = unhex(get(f, "bytes"));
    let splits = ints::<usize>(get(f, "split"));
    let max = num::<usize>(f, "max", 0);
    let src = SplitReader::new(data, splits, max);
    let ops: Vec<&str> = get(f, "ops").split(';').filter(|s| !s.is_empty()).collect();
    let be = get(f, "endian") == "be";
    let mut tr: Vec<String> = Vec::new();
    let arg = |o: &str, k: usize| -> i64 { o[k..].parse::<i64>().unwrap_or_else(|_| panic!("harness: bad op {}", o)) };
    match get(f, "reader") {
        "byte" => {
            fn go<E: flac_codec::byteorder::Endianness>(src: SplitReader, e: E, ops: &[&str], tr: &mut Vec<String>) -> Result<(), String> {
                let arg = |o: &str, k: usize| -> i64 { o[k..].parse::<i64>().unwrap() };
                let _ = e;
                let mut r = FlacByteReader::<_, E>::new_seekable(src).map_err(|e| format!("open:{}", errclass(&e)))?;
                let mut avail = 0usize;
                for o in ops {
                    if o.starts_with('r') {
                        let mut buf = vec![0u8; arg(o, 1) as usize];
                        match r.read(&mut buf) {
                            Ok(n) => tr.push(format!("r:{}", if n == 0 { "-".to_string() } else { hex(&buf[..n]) })),
                            Err(e) => tr.push(format!("r:ERR:{}", ioclass(&e))),
                        }
                        avail = 0;
                    } else if *o == "f" {
                        match r.fill_buf() {
                            Ok(b) => {
                                avail = b.len();
                                tr.push(format!("f:{}", if b.is_empty() { "-".to_string() } else { hex(b) }))
                            }
                            Err(e) => tr.push(format!("f:ERR:{}", ioclass(&e))),
                        }
                    } else if o.starts_with('c') {
                        let k = (arg(o, 1) as usize).min(avail);
                        r.consume(k);
                        avail -= k;
                        tr.push(format!("c:{}", k));
                    } else if o.starts_with('s') {
                        avail = 0;
                        let pos = match &o[1..2] {
                            "S" => SeekFrom::Start(arg(o, 2) as u64),
                            "C" => SeekFrom::Current(arg(o, 2)),
                            "E" => SeekFrom::End(arg(o, 2)),
                            _ => panic!("harness: bad seek op"),
                        };
                        match r.seek(pos) {
                            Ok(p) => tr.push(format!("s:ok:{}", p)),
                            Err(e) => tr.push(format!("s:ERR:{}", ioclass(&e))),
                        }
                    }
                }
                Ok(())
            }
            let res = if be { go(src, BigEndian, &ops, &mut tr) } else { go(src, LittleEndian, &ops, &mut tr) };
            if let Err(e) = res {
                return format!("err {}", e);
            }
        }
        "sample" => {
            let mut r = match FlacSampleReader::new_seekable(src) {
                Ok(r) => r,
                Err(e) => return format!("err open:{}", errclass(&e)),
            };
            let mut avail = 0usize;
            for o in &ops {
                if o.starts_with('r') {
                    let mut buf = vec![0i32; arg(o, 1) as usize];
                    match r.read(&mut buf) {
                        Ok(n) => tr.push(format!("r:{}", join(buf[..n].iter()))),
                        Err(e) => tr.push(format!("r:ERR:{}", errclass(&e))),
                    }
                    avail = 0;
                } else if *o == "f" {
                    match r.fill_buf() {
                        Ok(b) => {
                            avail = b.len();
                            tr.push(format!("f:{}", join(b.iter())))
                        }
                        Err(e) => tr.push(format!("f:ERR:{}", errclass(&e))),
                    }
                } else if o.starts_with('c') {
                    let k = (arg(o, 1) as usize).min(avail);
                    r.consume(k);
                    avail -= k;
                    tr.push(format!("c:{}", k));
                } else if o.starts_with("ss") {
                    avail = 0;
                    match r.seek(arg(o, 2) as u64) {
                        Ok(()) => tr.push("s:ok".to_string()),
                        Err(e) => tr.push(format!("s:ERR:{}", errclass(&e))),
                    }
                }
            }
        }
        "iter" => {
            let r = match FlacSampleReader::new_seekable(src) {
                Ok(r) => r,
                Err(e) => return format!("err open:{}", errclass(&e)),
            };
            let mut it = r.into_iter();
            for o in &ops {
                if *o == "x" {
                    match it.next() {
                        Some(Ok(s)) => tr.push(format!("x:{}", s)),
                        Some(Err(e)) => tr.push(format!("x:ERR:{}", errclass(&e))),
                        None => tr.push("x:-".to_string()),
                    }
                }
            }
        }
        "chan" => {
            let mut r = match FlacChannelReader::new_seekable(src) {
                Ok(r) => r,
                Err(e) => return format!("err open:{}", errclass(&e)),
            };
            let mut avail = 0usize;
            for o in &ops {
                if *o == "f" {
                    match r.fill_buf() {
                        Ok(chs) => {
                            avail = chs.first().map(|c| c.len()).unwrap_or(0);
                            tr.push(format!("f:{}", chs.iter().map(|c| join(c.iter())).collect::<Vec<_>>().join("|")))
                        }
                        Err(e) => tr.push(format!("f:ERR:{}", errclass(&e))),
                    }
                } else if o.starts_with('c') {
                    let k = (arg(o, 1) as usize).min(avail);
                    r.consume(k);
                    avail -= k;
                    tr.push(format!("c:{}", k));
                } else if o.starts_with("ss") {
                    avail = 0;
                    match r.seek(arg(o, 2) as u64) {
                        Ok(()) => tr.push("s:ok".to_string()),
                        Err(e) => tr.push(format!("s:ERR:{}", errclass(&e))),
                    }
                }
            }
        }
        other => return format!("harness-error bad-reader {}", other),
    }
    format!("ok trace={}", if tr.is_empty() { "-".to_string() } else { tr.join(";") })
}

/// C17: the structural parser and the streaming decoder on the same single frame.
/// `si=rate,ch,bps,maxbs` (or none for subset parsing)
pub fn structcmp(f: &Fields) -> String {
    use flac_codec::metadata::Streaminfo;
    use flac_codec::stream::{Frame, SubframeWidth};
    let data = unhex(get(f, "bytes"));
    let si = get(f, "si");
    let sinfo: Option<Streaminfo> = if si == "none" || si.is_empty() {
        None
    } else {
        let v = ints::<u64>(si);
        Some(Streaminfo {
            minimum_block_size: v[3] as u16,
            maximum_block_size: v[3] as u16,
            minimum_frame_size: None,
            maximum_frame_size: None,
            sample_rate: v[0] as u32,
            channels: std::num::NonZero::new(v[1] as u8).unwrap(),
            bits_per_sample: (v[2] as u32).try_into().unwrap(),
            total_samples: None,
            md5: None,
        })
    };
    // --- structural parser
    let mut cur = Cursor::new(data.clone());
    let parsed = match &sinfo {
        None => Frame::read_subset(&mut cur),
        Some(s) => Frame::read(&mut cur, s),
    };
    let used = cur.position() as usize;
    // --- streaming decoder on exactly the same bytes
    let dec: Result<(Vec<i32>, u8), String> = match &sinfo {
        None => {
            // the stream reader resynchronises; only a frame starting at byte 0 counts
            let mut r = FlacStreamReader::new(Cursor::new(data.clone()));
            match r.read() {
                Ok(fb) => Ok((fb.samples.to_vec(), fb.channels)),
                Err(e) => Err(errclass(&e)),
            }
        }
        Some(s) => {
            let mut file: Vec<u8> = Vec::new();
            let bl = flac_codec::metadata::BlockList::new(s.clone());
            if let Err(e) = flac_codec::metadata::write_blocks(&mut file, bl.blocks()) {
                return format!("harness-error write_blocks {}", errclass(&e));
            }
            file.extend_from_slice(&data);
            match FlacSampleReader::new(Cursor::new(file)) {
                Ok(mut r) => {
                    let mut buf = vec![0i32; 8 * 65536];
                    match r.read(&mut buf) {
                        Ok(n) => Ok((buf[..n].to_vec(), s.channels.get())),
                        Err(e) => Err(errclass(&e)),
                    }
                }
                Err(e) => Err(errclass(&e)),
            }
        }
    };
    let dec_s = match &dec {
        Ok((s, _)) => format!("dec=ok decpcm={}", join(s.iter())),
        Err(e) => format!("dec=err:{}", e),
    };
    match parsed {
        Err(e) => format!("ok struct=err:{} {}", errclass(&e), dec_s),
        Ok(frame) => {
            let mut re: Vec<u8> = Vec::new();
            let wres = match &sinfo {
                None => frame.write_subset(&mut re),
                Some(s) => frame.write(s, &mut re),
            };
            let rewritten = match wres {
                Ok(()) => hex(&re),
                Err(e) => format!("ERR:{}", errclass(&e)),
            };
            let bs = u16::from(frame.header.block_size) as usize;
            let subs: Vec<Vec<i64>> = frame
                .subframes
                .iter()
                .map(|s| match s {
                    SubframeWidth::Common(s) => s.decode().map(i64::from).collect(),
                    SubframeWidth::Wide(s) => s.decode().collect(),
                })
                .collect();
            let lens_ok = subs.iter().all(|s| s.len() == bs);
            // undo decorrelation on the expansions with the arithmetic width the decoder uses:
            // i32 when both subframes are common width, i64 (narrowed at the end) with a 33-bit side
            use flac_codec::stream::ChannelAssignment as CA;
            let wide = frame.subframes.iter().any(|s| matches!(s, SubframeWidth::Wide(_)));
            let w = |x: i64| -> i64 { if wide { x } else { x as i32 as i64 } };
            let chans: Vec<Vec<i64>> = match (frame.header.channel_assignment, subs.as_slice()) {
                (CA::LeftSide, [l, s]) => vec![l.clone(), l.iter().zip(s).map(|(l, s)| w(l.wrapping_sub(*s))).collect()],
                (CA::SideRight, [s, r]) => vec![s.iter().zip(r).map(|(s, r)| w(s.wrapping_add(*r))).collect(), r.clone()],
                (CA::MidSide, [m, s]) => {
                    let abs = |x: i64| -> i64 { if wide { x.wrapping_abs() } else { (x as i32).wrapping_abs() as i64 } };
                    let sum: Vec<i64> = m.iter().zip(s).map(|(m, s)| w(w(m.wrapping_mul(2)).wrapping_add(abs(*s) % 2))).collect();
                    vec![
                        sum.iter().zip(s).map(|(x, s)| w(x.wrapping_add(*s)) >> 1).collect(),
                        sum.iter().zip(s).map(|(x, s)| w(x.wrapping_sub(*s)) >> 1).collect(),
                    ]
                }
                (_, all) => all.to_vec(),
            };
            let n = chans.iter().map(|c| c.len()).min().unwrap_or(0);
            let mut inter: Vec<i32> = Vec::new();
            for i in 0..n {
                for c in &chans {
                    inter.push(c[i] as i32);
                }
            }
            format!(
                "ok struct=ok used={} bs={} nsub={} lens={} lens_ok={} rewritten={} spcm={} {}",
                used,
                bs,
                subs.len(),
                join(subs.iter().map(|s| s.len())),
                lens_ok,
                rewritten,
                join(inter.iter()),
                dec_s
            )
        }
    }
}

/// C14: stop before finalize, then decode every requested prefix of what reached the stream.
/// Fields as `wr` (without fault injection); `cuts=all` (every byte), `cuts=calls` (after every
/// underlying write call) or an explicit list.  Per cut: `cut:delivered:status:match`.
pub fn crash(f: &Fields) -> String {
    let mut g = f.clone();
    g.insert("fin".to_string(), "0".to_string());
    g.insert("log".to_string(), "1".to_string());
    let (res, io, prefin) = wr_inner_keep(&g);
    let mut refused = String::new();
    if let Err(e) = res {
        // `overfill=1`: more data than the declared total is offered; the refusal is expected and the stream is examined as it stands
        if get(f, "overfill") == "1" && prefin.is_some() {
            refused = format!(" refused={}", e);
        } else {
            return format!("err {} stage=write", e);
        }
    }
    let s = match prefin {
        Some(s) => s,
        None => return "harness-error no-prefinalize-snapshot".to_string(),
    };
    let ch = num::<u8>(f, "ch", 1).max(1) as usize;
    let pcm = ints::<i32>(get(f, "pcm"));
    // frame boundaries of S (walk until the data runs out)
    let mut ends: Vec<usize> = Vec::new();
    let mut lens: Vec<usize> = Vec::new();
    let mut metalen = 0usize;
    if let Ok(it) = flac_codec::stream::FrameIterator::new(Cursor::new(s.clone())) {
        metalen = it.metadata_len() as usize;
        let mut cur = Cursor::new(s[metalen..].to_vec());
        let si = it.metadata().streaminfo().clone();
        loop {
            match flac_codec::stream::Frame::read(&mut cur, &si) {
                Ok(fr) => {
                    ends.push(metalen + cur.position() as usize);
                    lens.push(u16::from(fr.header.block_size) as usize);
                }
                Err(_) => break,
            }
        }
    }
    let cuts: Vec<usize> = match get(f, "cuts") {
        "all" | "" => (0..=s.len()).collect(),
        "calls" => {
            let st = io.0.borrow();
            let mut v: Vec<usize> = st.log.iter().filter(|(k, _, _)| *k == 'w').map(|(_, _, l)| (*l).min(s.len())).collect();
            v.push(s.len());
            v.sort();
            v.dedup();
            v
        }
        list => ints::<usize>(list),
    };
    let reader = get(f, "reader");
    let mut items: Vec<String> = Vec::new();
    for cut in cuts {
        let p = s[..cut.min(s.len())].to_vec();
        let (delivered, status): (Vec<i32>, String) = match reader {
            "chan" => match FlacChannelReader::new(Cursor::new(p)) {
                Err(e) => (vec![], format!("openerr:{}", errclass(&e))),
                Ok(mut r) => {
                    let mut out: Vec<i32> = Vec::new();
                    loop {
                        match r.fill_buf() {
                            Ok(chs) => {
                                let n = chs.first().map(|c| c.len()).unwrap_or(0);
                                if n == 0 {
                                    break (out, "ok".to_string());
                                }
                                for i in 0..n {
                                    for c in &chs {
                                        out.push(c[i]);
                                    }
                                }
                                r.consume(n);
                            }
                            Err(e) => break (out, format!("err:{}", errclass(&e))),
                        }
                    }
                }
            },
            _ => match FlacSampleReader::new(Cursor::new(p)) {
                Err(e) => (vec![], format!("openerr:{}", errclass(&e))),
                Ok(mut r) => {
                    let mut out: Vec<i32> = Vec::new();
                    let mut buf = vec![0i32; 4096];
                    loop {
                        match r.read(&mut buf) {
                            Ok(0) => break (out, "ok".to_string()),
                            Ok(n) => out.extend_from_slice(&buf[..n]),
                            Err(e) => break (out, format!("err:{}", errclass(&e))),
                        }
                    }
                }
            },
        };
        let m = delivered.len() <= pcm.len() && delivered[..] == pcm[..delivered.len()];
        items.push(format!("{}:{}:{}:{}", cut, delivered.len() / ch, status.split(':').next().unwrap_or(""), if m { 1 } else { 0 }));
    }
    format!(
        "ok slen={} metalen={} ends={} lens={} s={} cutres={}{}",
        s.len(),
        metalen,
        join(ends.iter()),
        join(lens.iter()),
        hex(&s),
        if items.is_empty() { "-".to_string() } else { items.join(",") },
        refused
    )
}

fn wr_inner_keep(f: &Fields) -> (Result<(), String>, Shared, Option<Vec<u8>>) {
    wr_inner(f)
}

/// C15: constructor argument validation and the declared-length contract.
/// `fill=<n>` PCM frames are written in `calls=<k>` calls, then finalize.
pub fn ctor(f: &Fields) -> String {
    let opts = match options(f) {
        Ok(o) => o,
        Err(e) => return format!("err {} stage=options", e),
    };
    let rate = num::<u32>(f, "rate", 44100);
    let ch = num::<u8>(f, "ch", 1);
    let bps = num::<u32>(f, "bps", 16);
    let total = opt_num::<u64>(f, "total");
    let fill = num::<usize>(f, "fill", 0);
    let calls = num::<usize>(f, "calls", 1).max(1);
    let chn = ch as usize;
    let lo: i64 = if (1..=32).contains(&bps) { -(1i64 << (bps - 1)) } else { -1 };
    let hi: i64 = if (1..=32).contains(&bps) { (1i64 << (bps - 1)) - 1 } else { 0 };
    let pcm: Vec<i32> = (0..fill * chn).map(|i| ((i as i64 * 7 + 3) % (hi - lo + 1) + lo) as i32).collect();
    let io = Shared::new(0);
    let per = if chn == 0 { 0 } else { fill.div_ceil(calls) * chn };
    let res: Result<(), String> = match get(f, "fe") {
        "byte" => (|| {
            let mut w = FlacByteWriter::endian(io.clone(), LittleEndian, opts, rate, bps, ch, total).map_err(|e| format!("{} stage=new", errclass(&e)))?;
            let bytes_per = (bps.div_ceil(8)) as usize;
            let mut raw = Vec::new();
            for s in &pcm {
                raw.extend_from_slice(&s.to_le_bytes()[..bytes_per.min(4)]);
            }
            let perb = (per * bytes_per).max(1);
            for c in raw.chunks(perb) {
                w.write_all(c).map_err(|e| format!("{} stage=write", ioclass(&e)))?;
            }
            w.finalize().map_err(|e| format!("{} stage=finalize", errclass(&e)))
        })(),
        "sample" => (|| {
            let mut w = FlacSampleWriter::new(io.clone(), opts, rate, bps, ch, total).map_err(|e| format!("{} stage=new", errclass(&e)))?;
            for c in pcm.chunks(per.max(1)) {
                w.write(c).map_err(|e| format!("{} stage=write", errclass(&e)))?;
            }
            w.finalize().map_err(|e| format!("{} stage=finalize", errclass(&e)))
        })(),
        "chan" => (|| {
            let mut w = FlacChannelWriter::new(io.clone(), opts, rate, bps, ch, total).map_err(|e| format!("{} stage=new", errclass(&e)))?;
            let planar: Vec<Vec<i32>> = (0..chn).map(|c| (0..fill).map(|i| pcm[i * chn + c]).collect()).collect();
            let perf = fill.div_ceil(calls).max(1);
            let mut pos = 0;
            while pos < fill {
                let end = (pos + perf).min(fill);
                let part: Vec<&[i32]> = planar.iter().map(|p| &p[pos..end]).collect();
                w.write(&part).map_err(|e| format!("{} stage=write", errclass(&e)))?;
                pos = end;
            }
            w.finalize().map_err(|e| format!("{} stage=finalize", errclass(&e)))
        })(),
        "stream" => (|| {
            let mut out: Vec<u8> = Vec::new();
            let mut w = FlacStreamWriter::new(&mut out, opts);
            w.write(rate, ch, bps, &pcm).map_err(|e| format!("{} stage=write", errclass(&e)))
        })(),
        other => Err(format!("harness-error bad-fe {}", other)),
    };
    match res {
        Err(e) => format!("err {}", e),
        Ok(()) => {
            let file = io.data();
            let mut s = "ok stage=done".to_string();
            if get(f, "fe") != "stream" {
                match FlacSampleReader::new(Cursor::new(file)) {
                    Ok(mut r) => {
                        s.push_str(&format!(" {}", meta_str(&r)));
                        let mut all = Vec::new();
                        match r.read_to_end(&mut all) {
                            Ok(_) => s.push_str(&format!(" roundtrip={}", all == pcm)),
                            Err(e) => s.push_str(&format!(" roundtrip=ERR:{}", errclass(&e))),
                        }
                    }
                    Err(e) => s.push_str(&format!(" reopen=ERR:{}", errclass(&e))),
                }
            }
            s
        }
    }
}
