//! flacverif — drives the REAL flac-codec crate, in-process, through its public API only.
//!
//! `flacverif run < cases.txt > outcomes.txt` : one outcome line per case line (same order).
//! Outcome grammar:  `ok k=v …` | `err <ErrClass> k=v …` | `panic <file>: <message>`.
//! Every case runs under `catch_unwind`; a panic hook records file and message (never a line
//! number, so that unrelated edits do not change outcomes).

use std::cell::RefCell;
use std::collections::HashMap;
use std::io::{BufRead, Write};

mod meta;
mod ops;
mod util;

/// counting allocator: peak live bytes per case (C04 / C12 memory bound)
pub struct Counting;
pub static CUR: std::sync::atomic::AtomicUsize = std::sync::atomic::AtomicUsize::new(0);
pub static PEAK: std::sync::atomic::AtomicUsize = std::sync::atomic::AtomicUsize::new(0);

unsafe impl std::alloc::GlobalAlloc for Counting {
    unsafe fn alloc(&self, l: std::alloc::Layout) -> *mut u8 {
        use std::sync::atomic::Ordering::Relaxed;
        let p = unsafe { std::alloc::System.alloc(l) };
        if !p.is_null() {
            let c = CUR.fetch_add(l.size(), Relaxed) + l.size();
            PEAK.fetch_max(c, Relaxed);
        }
        p
    }
    unsafe fn dealloc(&self, p: *mut u8, l: std::alloc::Layout) {
        CUR.fetch_sub(l.size(), std::sync::atomic::Ordering::Relaxed);
        unsafe { std::alloc::System.dealloc(p, l) }
    }
}

#[global_allocator]
static ALLOC: Counting = Counting;

thread_local! {
    pub static LAST_PANIC: RefCell<String> = const { RefCell::new(String::new()) };
}

fn main() {
    std::panic::set_hook(Box::new(|info| {
        let msg = if let Some(s) = info.payload().downcast_ref::<&str>() {
            s.to_string()
        } else if let Some(s) = info.payload().downcast_ref::<String>() {
            s.clone()
        } else {
            "<non-string panic>".to_string()
        };
        let file = info
            .location()
            .map(|l| {
                let f = l.file();
                // keep only the path below src/ (or the crate-relative tail)
                match f.rfind("/src/") {
                    Some(i) => f[i + 5..].to_string(),
                    None => f.rsplit('/').next().unwrap_or(f).to_string(),
                }
            })
            .unwrap_or_default();
        LAST_PANIC.with(|p| *p.borrow_mut() = format!("{}: {}", file, msg.replace('\n', " ")));
    }));

    let args: Vec<String> = std::env::args().collect();
    match args.get(1).map(|s| s.as_str()) {
        Some("run") => run(),
        Some("profile") => {
            // which arithmetic profile this binary was built with
            println!("{}", if cfg!(debug_assertions) { "debug" } else { "release" });
        }
        _ => {
            eprintln!("usage: flacverif run < cases > outcomes");
            std::process::exit(2);
        }
    }
}

fn run() {
    let stdin = std::io::stdin();
    let stdout = std::io::stdout();
    let mut out = std::io::BufWriter::new(stdout.lock());
    for line in stdin.lock().lines() {
        let line = line.expect("read stdin");
        let line = line.trim();
        if line.is_empty() || line.starts_with('#') {
            writeln!(out, "{}", line).unwrap();
            continue;
        }
        let (op, f) = util::fields(line);
        let measure = f.contains_key("alloc");
        let base = CUR.load(std::sync::atomic::Ordering::Relaxed);
        PEAK.store(base, std::sync::atomic::Ordering::Relaxed);
        let res = std::panic::catch_unwind(std::panic::AssertUnwindSafe(|| run_case(&op, &f)));
        let peak = PEAK.load(std::sync::atomic::Ordering::Relaxed).saturating_sub(base);
        let tail = if measure { format!(" peak={}", peak) } else { String::new() };
        match res {
            Ok(s) => writeln!(out, "{}{}", s, tail).unwrap(),
            Err(_) => {
                let p = LAST_PANIC.with(|p| p.borrow().clone());
                writeln!(out, "panic {}", p).unwrap()
            }
        }
        // one line at a time, so that a hang or an abort can be attributed to its case
        out.flush().unwrap();
    }
    out.flush().unwrap();
}

pub type Fields = HashMap<String, String>;

/// with the `rayon` feature, `threads=N` runs the case inside a pool of N worker threads
#[cfg(feature = "rayon")]
fn run_case(op: &str, f: &Fields) -> String {
    match f.get("threads").and_then(|t| t.parse::<usize>().ok()) {
        Some(n) => {
            // one pool per size for the whole run: worker threads outlive an encoder, as they do in a program that encodes several
            // files, so state a worker keeps between tasks (thread-locals) is carried from one case into the next
            static POOLS: std::sync::OnceLock<std::sync::Mutex<HashMap<usize, std::sync::Arc<rayon::ThreadPool>>>> = std::sync::OnceLock::new();
            let pool = {
                let mut m = POOLS.get_or_init(|| std::sync::Mutex::new(HashMap::new())).lock().unwrap();
                m.entry(n)
                    .or_insert_with(|| std::sync::Arc::new(rayon::ThreadPoolBuilder::new().num_threads(n).build().expect("thread pool")))
                    .clone()
            };
            let r = pool.install(|| ops::dispatch(op, f));
            format!("{} parallel=1", r)
        }
        None => format!("{} parallel=1", ops::dispatch(op, f)),
    }
}

#[cfg(not(feature = "rayon"))]
fn run_case(op: &str, f: &Fields) -> String {
    ops::dispatch(op, f)
}
