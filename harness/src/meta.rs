//! metadata block operations (C10, C11, C12, C13)
use crate::Fields;
use crate::util::*;
use flac_codec::metadata::{
    Application, Block, Cuesheet, MetadataBlock, Padding, Picture, PictureType, SeekPoint, SeekTable, Streaminfo,
    VorbisComment, read_blocks, write_blocks,
};
use std::io::Cursor;

fn hx(s: &str) -> Vec<u8> {
    if s == "-" || s.is_empty() { vec![] } else { unhex(s) }
}

fn hxs(b: &[u8]) -> String {
    if b.is_empty() { "-".to_string() } else { hex(b) }
}

pub fn picture_type(n: u32) -> Option<PictureType> {
    use PictureType::*;
    Some(match n {
        0 => Other, 1 => Png32x32, 2 => GeneralFileIcon, 3 => FrontCover, 4 => BackCover, 5 => LinerNotes,
        6 => MediaLabel, 7 => LeadArtist, 8 => Artist, 9 => Conductor, 10 => Band, 11 => Composer, 12 => Lyricist,
        13 => RecordingLocation, 14 => DuringRecording, 15 => DuringPerformance, 16 => ScreenCapture, 17 => Fish,
        18 => Illustration, 19 => BandLogo, 20 => PublisherLogo,
        _ => return None,
    })
}

/// block literal -> Block (None = the value cannot be constructed through the public API)
pub fn parse_block(lit: &str) -> Result<Block, String> {
    let p: Vec<&str> = lit.split(':').collect();
    match p[0] {
        "S" => {
            let n = |i: usize| p[i].parse::<u64>().unwrap();
            Ok(Block::Streaminfo(Streaminfo {
                minimum_block_size: n(1) as u16,
                maximum_block_size: n(2) as u16,
                minimum_frame_size: std::num::NonZero::new(n(3) as u32),
                maximum_frame_size: std::num::NonZero::new(n(4) as u32),
                sample_rate: n(5) as u32,
                channels: std::num::NonZero::new(n(6) as u8).ok_or("channels=0")?,
                bits_per_sample: (n(7) as u32).try_into().map_err(|_| "bad-bps".to_string())?,
                total_samples: std::num::NonZero::new(n(8)),
                md5: if p[9] == "none" { None } else { Some(unhex(p[9]).try_into().map_err(|_| "bad-md5".to_string())?) },
            }))
        }
        "P" => Ok(Block::Padding(Padding { size: p[1].parse::<u32>().unwrap().try_into().map_err(|_| "padding-too-large".to_string())? })),
        "A" => Ok(Block::Application(Application { id: u32::from_str_radix(p[1], 16).unwrap(), data: hx(p[2]) })),
        "T" => {
            let pts: Vec<SeekPoint> = if p[1] == "-" || p[1].is_empty() {
                vec![]
            } else {
                p[1].split(',')
                    .map(|s| {
                        if s == "X" {
                            SeekPoint::Placeholder
                        } else {
                            let q: Vec<u64> = s.split('.').map(|x| x.parse().unwrap()).collect();
                            SeekPoint::Defined { sample_offset: q[0], byte_offset: q[1], frame_samples: q[2] as u16 }
                        }
                    })
                    .collect()
            };
            Ok(Block::SeekTable(SeekTable { points: pts.try_into().map_err(|_| "noncontiguous-seektable".to_string())? }))
        }
        "V" => Ok(Block::VorbisComment(VorbisComment {
            vendor_string: String::from_utf8(hx(p[1])).map_err(|_| "bad-utf8".to_string())?,
            fields: if p[2] == "-" || p[2].is_empty() {
                vec![]
            } else {
                p[2].split(',').map(|f| String::from_utf8(hx(f)).map_err(|_| "bad-utf8".to_string())).collect::<Result<Vec<_>, _>>()?
            },
        })),
        "I" => Ok(Block::Picture(Picture {
            picture_type: picture_type(p[1].parse().unwrap()).ok_or("bad-picture-type")?,
            media_type: String::from_utf8(hx(p[2])).map_err(|_| "bad-utf8".to_string())?,
            description: String::from_utf8(hx(p[3])).map_err(|_| "bad-utf8".to_string())?,
            width: p[4].parse().unwrap(),
            height: p[5].parse().unwrap(),
            color_depth: p[6].parse().unwrap(),
            colors_used: std::num::NonZero::new(p[7].parse().unwrap()),
            data: hx(p[8]),
        })),
        "C" => {
            let text = String::from_utf8(hx(p[2])).map_err(|_| "bad-utf8".to_string())?;
            Cuesheet::parse(p[1].parse().unwrap(), &text).map(Block::Cuesheet).map_err(|e| format!("Cuesheet({:?})", e))
        }
        other => Err(format!("bad-literal {}", other)),
    }
}

pub fn describe(b: &Block) -> String {
    match b {
        Block::Streaminfo(s) => format!(
            "S:{}:{}:{}:{}:{}:{}:{}:{}:{}",
            s.minimum_block_size,
            s.maximum_block_size,
            s.minimum_frame_size.map(|x| x.get()).unwrap_or(0),
            s.maximum_frame_size.map(|x| x.get()).unwrap_or(0),
            s.sample_rate,
            s.channels.get(),
            u32::from(s.bits_per_sample),
            s.total_samples.map(|x| x.get()).unwrap_or(0),
            s.md5.map(|m| hex(&m)).unwrap_or("none".to_string())
        ),
        Block::Padding(p) => format!("P:{}", u32::from(p.size)),
        Block::Application(a) => format!("A:{:08x}:{}", a.id, hxs(&a.data)),
        Block::SeekTable(t) => format!(
            "T:{}",
            if t.points.is_empty() {
                "-".to_string()
            } else {
                t.points
                    .iter()
                    .map(|p| match p {
                        SeekPoint::Defined { sample_offset, byte_offset, frame_samples } => format!("{}.{}.{}", sample_offset, byte_offset, frame_samples),
                        SeekPoint::Placeholder => "X".to_string(),
                    })
                    .collect::<Vec<_>>()
                    .join(",")
            }
        ),
        Block::VorbisComment(v) => format!(
            "V:{}:{}",
            hxs(v.vendor_string.as_bytes()),
            if v.fields.is_empty() { "-".to_string() } else { v.fields.iter().map(|f| hxs(f.as_bytes())).collect::<Vec<_>>().join(",") }
        ),
        Block::Picture(p) => format!(
            "I:{}:{}:{}:{}:{}:{}:{}:{}",
            p.picture_type as u32,
            hxs(p.media_type.as_bytes()),
            hxs(p.description.as_bytes()),
            p.width,
            p.height,
            p.color_depth,
            p.colors_used.map(|c| c.get()).unwrap_or(0),
            hxs(&p.data)
        ),
        Block::Cuesheet(c) => {
            // binary form as the description (the structure has no public field access for all parts)
            let mut w = bitstream_io::BitWriter::endian(Vec::new(), bitstream_io::BigEndian);
            use bitstream_io::BitWrite;
            match w.build(c) {
                Ok(()) => format!("C:raw:{}", hxs(&w.into_writer())),
                Err(e) => format!("C:unwritable:{}", errclass(&e)),
            }
        }
    }
}

fn size_str(b: &Block) -> String {
    fn one<M: MetadataBlock>(m: &M) -> String {
        format!("{}/{}", m.bytes().map(|s| u32::from(s).to_string()).unwrap_or("none".to_string()), m.total_size().map(|s| u32::from(s).to_string()).unwrap_or("none".to_string()))
    }
    match b {
        Block::Streaminfo(x) => one(x),
        Block::Padding(x) => one(x),
        Block::Application(x) => one(x),
        Block::SeekTable(x) => one(x),
        Block::VorbisComment(x) => one(x),
        Block::Cuesheet(x) => one(x),
        Block::Picture(x) => one(x),
    }
}

/// write a block list given as literals; read it back
pub fn blocksw(f: &Fields) -> String {
    let lits: Vec<&str> = get(f, "list").split(';').filter(|s| !s.is_empty()).collect();
    let mut blocks: Vec<Block> = Vec::new();
    for l in &lits {
        match parse_block(l) {
            Ok(b) => blocks.push(b),
            Err(e) => return format!("err Construct:{} stage=construct", e.replace(' ', "_")),
        }
    }
    let sizes: Vec<String> = blocks.iter().map(size_str).collect();
    let mut out: Vec<u8> = Vec::new();
    match write_blocks(&mut out, blocks.iter()) {
        Err(e) => format!("err {} stage=write sizes={}", errclass(&e), sizes.join(",")),
        Ok(()) => {
            let rb = read_blocks(Cursor::new(out.clone())).collect::<Result<Vec<Block>, _>>();
            let readback = match rb {
                Ok(v) => {
                    if v == blocks { "equal".to_string() } else { format!("differs:{}", v.iter().map(describe).collect::<Vec<_>>().join(";")) }
                }
                Err(e) => format!("ERR:{}", errclass(&e)),
            };
            format!("ok bytes={} sizes={} readback={}", hex(&out), sizes.join(","), readback)
        }
    }
}

/// read a metadata section; describe; write again; read again
pub fn blocksr(f: &Fields) -> String {
    let data = unhex(get(f, "bytes"));
    let mut cur = Cursor::new(data);
    let rb = read_blocks(&mut cur).collect::<Result<Vec<Block>, _>>();
    match rb {
        Err(e) => format!("err {}", errclass(&e)),
        Ok(blocks) => {
            let used = cur.position();
            let desc = blocks.iter().map(describe).collect::<Vec<_>>().join(";");
            let sizes: Vec<String> = blocks.iter().map(size_str).collect();
            let mut out: Vec<u8> = Vec::new();
            let rew = match write_blocks(&mut out, blocks.iter()) {
                Err(e) => format!("ERR:{}", errclass(&e)),
                Ok(()) => match read_blocks(Cursor::new(out.clone())).collect::<Result<Vec<Block>, _>>() {
                    Ok(v) if v == blocks => format!("{}", hex(&out)),
                    Ok(_) => "REREAD-DIFFERS".to_string(),
                    Err(e) => format!("REREAD-ERR:{}", errclass(&e)),
                },
            };
            format!("ok used={} desc={} sizes={} rewritten={}", used, desc, sizes.join(","), rew)
        }
    }
}
