//! metadata block operations (C10, C11, C12, C13)
use crate::Fields;
use crate::util::*;
use flac_codec::metadata::{
    Application, Block, Cuesheet, MetadataBlock, Padding, Picture, PictureType, SeekPoint, SeekTable, Streaminfo,
    VorbisComment, read_blocks, write_blocks,
};
use flac_codec::metadata::contiguous::Contiguous;
use flac_codec::metadata::cuesheet::{CDDAOffset, Digit, ISRC, Index, IndexVec, LeadOut, Track};
use flac_codec::metadata::{BlockList, Metadata};
use std::io::Cursor;

fn hx(s: &str) -> Vec<u8> {
    if s == "-" || s.is_empty() {
        vec![]
    } else if let Some(n) = s.strip_prefix('*') {
        // `*N` = N bytes of 'A'
        vec![0x41; n.parse().unwrap()]
    } else {
        unhex(s)
    }
}

fn hxs(b: &[u8]) -> String {
    if b.is_empty() { "-".to_string() } else { hex(b) }
}

pub fn picture_type(n: u32) -> Option<PictureType> {
    use PictureType::*;
    Some(match n {
        0 => Other, 1 => Png32x32, 2 => GeneralFileIcon, 3 => FrontCover, 4 => BackCover, 5 => LinerNotes,
        6 => MediaLabel, 7 => LeadArtist, 8 => Artist, 9 => Conductor, 10 => Band, 11 => Composer, 12 => Lyricist,
        13 => RecordingLocation, 14 => DuringRecording, 15 => DuringPerformance, 16 => ScreenCapture, 17 => Fish,
        18 => Illustration, 19 => BandLogo, 20 => PublisherLogo,
        _ => return None,
    })
}

/// block literal -> Block (None = the value cannot be constructed through the public API)
pub fn parse_block(lit: &str) -> Result<Block, String> {
    let p: Vec<&str> = lit.split(':').collect();
    match p[0] {
        "S" => {
            let n = |i: usize| p[i].parse::<u64>().unwrap();
            Ok(Block::Streaminfo(Streaminfo {
                minimum_block_size: n(1) as u16,
                maximum_block_size: n(2) as u16,
                minimum_frame_size: std::num::NonZero::new(n(3) as u32),
                maximum_frame_size: std::num::NonZero::new(n(4) as u32),
                sample_rate: n(5) as u32,
                channels: std::num::NonZero::new(n(6) as u8).ok_or("channels=0")?,
                bits_per_sample: (n(7) as u32).try_into().map_err(|_| "bad-bps".to_string())?,
                total_samples: std::num::NonZero::new(n(8)),
                md5: if p[9] == "none" { None } else { Some(unhex(p[9]).try_into().map_err(|_| "bad-md5".to_string())?) },
            }))
        }
        "P" => Ok(Block::Padding(Padding { size: p[1].parse::<u32>().unwrap().try_into().map_err(|_| "padding-too-large".to_string())? })),
        "A" => Ok(Block::Application(Application { id: u32::from_str_radix(p[1], 16).unwrap(), data: hx(p[2]) })),
        "T" => {
            let pts: Vec<SeekPoint> = if p[1] == "-" || p[1].is_empty() {
                vec![]
            } else {
                p[1].split(',')
                    .map(|s| {
                        if s == "X" {
                            SeekPoint::Placeholder
                        } else {
                            let q: Vec<u64> = s.split('.').map(|x| x.parse().unwrap()).collect();
                            SeekPoint::Defined { sample_offset: q[0], byte_offset: q[1], frame_samples: q[2] as u16 }
                        }
                    })
                    .collect()
            };
            Ok(Block::SeekTable(SeekTable { points: pts.try_into().map_err(|_| "noncontiguous-seektable".to_string())? }))
        }
        "V" => Ok(Block::VorbisComment(VorbisComment {
            vendor_string: String::from_utf8(hx(p[1])).map_err(|_| "bad-utf8".to_string())?,
            fields: if p[2] == "-" || p[2].is_empty() {
                vec![]
            } else {
                p[2].split(',').map(|f| String::from_utf8(hx(f)).map_err(|_| "bad-utf8".to_string())).collect::<Result<Vec<_>, _>>()?
            },
        })),
        "I" => Ok(Block::Picture(Picture {
            picture_type: picture_type(p[1].parse().unwrap()).ok_or("bad-picture-type")?,
            media_type: String::from_utf8(hx(p[2])).map_err(|_| "bad-utf8".to_string())?,
            description: String::from_utf8(hx(p[3])).map_err(|_| "bad-utf8".to_string())?,
            width: p[4].parse().unwrap(),
            height: p[5].parse().unwrap(),
            color_depth: p[6].parse().unwrap(),
            colors_used: std::num::NonZero::new(p[7].parse().unwrap()),
            data: hx(p[8]),
        })),
        "C" => {
            let text = String::from_utf8(hx(p[2])).map_err(|_| "bad-utf8".to_string())?;
            Cuesheet::parse(p[1].parse().unwrap(), &text).map(Block::Cuesheet).map_err(|e| format!("Cuesheet({:?})", e))
        }
        "Q" => cue_from_literal(&p).map(Block::Cuesheet),
        other => Err(format!("bad-literal {}", other)),
    }
}

pub fn describe(b: &Block) -> String {
    match b {
        Block::Streaminfo(s) => format!(
            "S:{}:{}:{}:{}:{}:{}:{}:{}:{}",
            s.minimum_block_size,
            s.maximum_block_size,
            s.minimum_frame_size.map(|x| x.get()).unwrap_or(0),
            s.maximum_frame_size.map(|x| x.get()).unwrap_or(0),
            s.sample_rate,
            s.channels.get(),
            u32::from(s.bits_per_sample),
            s.total_samples.map(|x| x.get()).unwrap_or(0),
            s.md5.map(|m| hex(&m)).unwrap_or("none".to_string())
        ),
        Block::Padding(p) => format!("P:{}", u32::from(p.size)),
        Block::Application(a) => format!("A:{:08x}:{}", a.id, hxs(&a.data)),
        Block::SeekTable(t) => format!(
            "T:{}",
            if t.points.is_empty() {
                "-".to_string()
            } else {
                t.points
                    .iter()
                    .map(|p| match p {
                        SeekPoint::Defined { sample_offset, byte_offset, frame_samples } => format!("{}.{}.{}", sample_offset, byte_offset, frame_samples),
                        SeekPoint::Placeholder => "X".to_string(),
                    })
                    .collect::<Vec<_>>()
                    .join(",")
            }
        ),
        Block::VorbisComment(v) => format!(
            "V:{}:{}",
            hxs(v.vendor_string.as_bytes()),
            if v.fields.is_empty() { "-".to_string() } else { v.fields.iter().map(|f| hxs(f.as_bytes())).collect::<Vec<_>>().join(",") }
        ),
        Block::Picture(p) => format!(
            "I:{}:{}:{}:{}:{}:{}:{}:{}",
            p.picture_type as u32,
            hxs(p.media_type.as_bytes()),
            hxs(p.description.as_bytes()),
            p.width,
            p.height,
            p.color_depth,
            p.colors_used.map(|c| c.get()).unwrap_or(0),
            hxs(&p.data)
        ),
        Block::Cuesheet(c) => cue_literal(c),
    }
}

fn size_str(b: &Block) -> String {
    fn one<M: MetadataBlock>(m: &M) -> String {
        format!("{}/{}", m.bytes().map(|s| u32::from(s).to_string()).unwrap_or("none".to_string()), m.total_size().map(|s| u32::from(s).to_string()).unwrap_or("none".to_string()))
    }
    match b {
        Block::Streaminfo(x) => one(x),
        Block::Padding(x) => one(x),
        Block::Application(x) => one(x),
        Block::SeekTable(x) => one(x),
        Block::VorbisComment(x) => one(x),
        Block::Cuesheet(x) => one(x),
        Block::Picture(x) => one(x),
    }
}

/// write a block list given as literals; read it back
pub fn blocksw(f: &Fields) -> String {
    let lits: Vec<&str> = get(f, "list").split(';').filter(|s| !s.is_empty()).collect();
    let mut blocks: Vec<Block> = Vec::new();
    for l in &lits {
        match parse_block(l) {
            Ok(b) => blocks.push(b),
            Err(e) => return format!("err Construct:{} stage=construct", e.replace(' ', "_")),
        }
    }
    let sizes: Vec<String> = blocks.iter().map(size_str).collect();
    if let Some(at) = opt_num::<usize>(f, "failat") {
        // C13: a failing sink; success must mean every byte arrived
        let kind = fault_kind(get(f, "fkind"));
        let mut clean: Vec<u8> = Vec::new();
        let cr = write_blocks(&mut clean, blocks.iter());
        let sink = Shared::from_data(Vec::new());
        sink.fail(at, kind, get(f, "fonly"));
        let r = write_blocks(sink.clone(), blocks.iter());
        let st = sink.0.borrow();
        return format!(
            "{} tripped={} complete={} clean={}",
            match &r { Ok(()) => "ok".to_string(), Err(e) => format!("err {}", errclass(e)) },
            st.tripped as u8,
            (st.data == clean) as u8,
            cr.is_ok() as u8
        );
    }
    let mut out: Vec<u8> = Vec::new();
    match write_blocks(&mut out, blocks.iter()) {
        Err(e) => format!("err {} stage=write sizes={}", errclass(&e), sizes.join(",")),
        Ok(()) => {
            let rb = read_blocks(Cursor::new(out.clone())).collect::<Result<Vec<Block>, _>>();
            let readback = match rb {
                Ok(v) => {
                    if v == blocks { "equal".to_string() } else { format!("differs:{}", v.iter().map(describe).collect::<Vec<_>>().join(";").chars().take(600).collect::<String>()) }
                }
                Err(e) => format!("ERR:{}", errclass(&e)),
            };
            format!("ok bytes={} sizes={} readback={}", big(&out), sizes.join(","), readback)
        }
    }
}

/// read a metadata section; describe; write again; read again
pub fn blocksr(f: &Fields) -> String {
    let data = unhex(get(f, "bytes"));
    let mut cur = Cursor::new(data);
    let rb = read_blocks(&mut cur).collect::<Result<Vec<Block>, _>>();
    match rb {
        Err(e) => format!("err {}", errclass(&e)),
        Ok(blocks) => {
            let used = cur.position();
            let desc = blocks.iter().map(describe).collect::<Vec<_>>().join(";");
            let sizes: Vec<String> = blocks.iter().map(size_str).collect();
            let mut out: Vec<u8> = Vec::new();
            let rew = match write_blocks(&mut out, blocks.iter()) {
                Err(e) => format!("ERR:{}", errclass(&e)),
                Ok(()) => match read_blocks(Cursor::new(out.clone())).collect::<Result<Vec<Block>, _>>() {
                    Ok(v) if v == blocks => big(&out),
                    Ok(_) => "REREAD-DIFFERS".to_string(),
                    Err(e) => format!("REREAD-ERR:{}", errclass(&e)),
                },
            };
            format!("ok used={} desc={} sizes={} rewritten={}", used, desc, sizes.join(","), rew)
        }
    }
}


// ------------------------------------------------------------------------------------------------
// cue sheets: structural literal
//   Q:<cdda 0|1>:<catalog digits or ->:<lead-in>:<track,track,…or ->:<lead-out>
//   track    = offset.number.isrc.na.pe.idx+idx+…      idx = offset/number
//   lead-out = offset.isrc.na.pe
//   isrc     = hex of the text handed to ISRC::from_str, or -
// ------------------------------------------------------------------------------------------------
fn isrc_lit(i: &ISRC) -> String {
    match i {
        ISRC::None => "-".to_string(),
        ISRC::String(s) => hxs(s.as_ref().as_bytes()),
    }
}

pub fn cue_literal(c: &Cuesheet) -> String {
    let cat = {
        let s = format!("{}", c.catalog_number());
        if s.is_empty() { "-".to_string() } else { s }
    };
    let (tracks, lead): (Vec<String>, String) = match c {
        Cuesheet::CDDA { tracks, lead_out, .. } => (
            tracks
                .iter()
                .map(|t| {
                    format!(
                        "{}.{}.{}.{}.{}.{}",
                        u64::from(t.offset),
                        t.number.get(),
                        isrc_lit(&t.isrc),
                        t.non_audio as u8,
                        t.pre_emphasis as u8,
                        t.index_points.iter().map(|i| format!("{}/{}", u64::from(i.offset), i.number)).collect::<Vec<_>>().join("+")
                    )
                })
                .collect(),
            format!("{}.{}.{}.{}", u64::from(lead_out.offset), isrc_lit(&lead_out.isrc), lead_out.non_audio as u8, lead_out.pre_emphasis as u8),
        ),
        Cuesheet::NonCDDA { tracks, lead_out, .. } => (
            tracks
                .iter()
                .map(|t| {
                    format!(
                        "{}.{}.{}.{}.{}.{}",
                        t.offset,
                        t.number.get(),
                        isrc_lit(&t.isrc),
                        t.non_audio as u8,
                        t.pre_emphasis as u8,
                        t.index_points.iter().map(|i| format!("{}/{}", i.offset, i.number)).collect::<Vec<_>>().join("+")
                    )
                })
                .collect(),
            format!("{}.{}.{}.{}", lead_out.offset, isrc_lit(&lead_out.isrc), lead_out.non_audio as u8, lead_out.pre_emphasis as u8),
        ),
    };
    format!(
        "Q:{}:{}:{}:{}:{}",
        c.is_cdda() as u8,
        cat,
        c.lead_in_samples().unwrap_or(0),
        if tracks.is_empty() { "-".to_string() } else { tracks.join(",") },
        lead
    )
}

fn isrc_from(s: &str) -> Result<ISRC, String> {
    if s == "-" {
        Ok(ISRC::None)
    } else {
        let t = String::from_utf8(unhex(s)).map_err(|_| "bad-utf8".to_string())?;
        t.parse::<ISRC>().map_err(|_| "bad-isrc".to_string())
    }
}

fn cue_from_literal(p: &[&str]) -> Result<Cuesheet, String> {
    let cdda = p[1] == "1";
    let digits: Vec<Digit> = if p[2] == "-" { vec![] } else { p[2].bytes().map(|b| Digit::try_from(b).map_err(|_| "bad-digit".to_string())).collect::<Result<_, _>>()? };
    let lead_in: u64 = p[3].parse().unwrap();
    let tl: Vec<&str> = if p[4] == "-" { vec![] } else { p[4].split(',').collect() };
    let lo: Vec<&str> = p[5].split('.').collect();
    let b = |s: &str| s == "1";
    let n = |s: &str| s.parse::<u64>().unwrap();
    if cdda {
        let off = |x: u64| CDDAOffset::try_from(x).map_err(|_| "bad-cdda-offset".to_string());
        let mut tracks = Vec::new();
        for t in tl {
            let q: Vec<&str> = t.split('.').collect();
            let mut idx = Vec::new();
            for i in q[5].split('+').filter(|s| !s.is_empty() && *s != "-") {
                let (o, k) = i.split_once('/').unwrap();
                idx.push(Index { offset: off(n(o))?, number: k.parse::<u8>().map_err(|_| "index-number-range".to_string())? });
            }
            let cont: Contiguous<100, Index<CDDAOffset>> = idx.try_into().map_err(|_| "noncontiguous-index".to_string())?;
            tracks.push(Track {
                offset: off(n(q[0]))?,
                number: u8::try_from(n(q[1])).ok().and_then(std::num::NonZero::new).ok_or("track-number-range")?,
                isrc: isrc_from(q[2])?,
                non_audio: b(q[3]),
                pre_emphasis: b(q[4]),
                index_points: IndexVec::try_from(cont).map_err(|_| "bad-indexvec".to_string())?,
            });
        }
        Ok(Cuesheet::CDDA {
            catalog_number: if digits.is_empty() { None } else { Some(digits.try_into().map_err(|_| "bad-catalog".to_string())?) },
            lead_in_samples: lead_in,
            tracks: tracks.try_into().map_err(|_| "noncontiguous-tracks".to_string())?,
            lead_out: Track { offset: off(n(lo[0]))?, number: LeadOut, isrc: isrc_from(lo[1])?, non_audio: b(lo[2]), pre_emphasis: b(lo[3]), index_points: () },
        })
    } else {
        let mut tracks = Vec::new();
        for t in tl {
            let q: Vec<&str> = t.split('.').collect();
            let mut idx = Vec::new();
            for i in q[5].split('+').filter(|s| !s.is_empty() && *s != "-") {
                let (o, k) = i.split_once('/').unwrap();
                idx.push(Index { offset: n(o), number: k.parse::<u8>().map_err(|_| "index-number-range".to_string())? });
            }
            let cont: Contiguous<{ NONCDDA_INDEX_MAX }, Index<u64>> = idx.try_into().map_err(|_| "noncontiguous-index".to_string())?;
            tracks.push(Track {
                offset: n(q[0]),
                number: u8::try_from(n(q[1])).ok().and_then(std::num::NonZero::new).ok_or("track-number-range")?,
                isrc: isrc_from(q[2])?,
                non_audio: b(q[3]),
                pre_emphasis: b(q[4]),
                index_points: IndexVec::try_from(cont).map_err(|_| "bad-indexvec".to_string())?,
            });
        }
        Ok(Cuesheet::NonCDDA {
            catalog_number: digits,
            tracks: tracks.try_into().map_err(|_| "noncontiguous-tracks".to_string())?,
            lead_out: Track { offset: n(lo[0]), number: LeadOut, isrc: isrc_from(lo[1])?, non_audio: b(lo[2]), pre_emphasis: b(lo[3]), index_points: () },
        })
    }
}

/// the index-point capacity of a non-CD-DA track, read off the crate's own type alias
const NONCDDA_INDEX_MAX: usize = noncdda_index_max();
const fn noncdda_index_max() -> usize {
    trait Cap {
        const MAX: usize;
    }
    impl<const M: usize, O: flac_codec::metadata::contiguous::Adjacent, N> Cap for Track<O, N, IndexVec<M, O>> {
        const MAX: usize = M;
    }
    <flac_codec::metadata::cuesheet::TrackNonCDDA as Cap>::MAX
}

/// cue sheet text import (C20, C12): parse, describe, ranges, export, re-import
pub fn cuetext(f: &Fields) -> String {
    let total: u64 = num(f, "total", 0);
    let text = match String::from_utf8(unhex(get(f, "text"))) {
        Ok(t) => t,
        Err(_) => return "err Construct:bad-utf8 stage=construct".to_string(),
    };
    match Cuesheet::parse(total, &text) {
        Err(e) => format!("err Cuesheet({:?})", e),
        Ok(c) => {
            let ranges: Vec<String> = c.track_sample_ranges().map(|r| format!("{}-{}", r.start, r.end)).collect();
            let disp = format!("{}", c.display("x.flac"));
            let re = match Cuesheet::parse(total, &disp) {
                Ok(c2) => {
                    if layout(&c2) == layout(&c) { "same".to_string() } else { format!("differs:{}", cue_literal(&c2)) }
                }
                Err(e) => format!("ERR:{:?}", e),
            };
            let sizes = size_str(&Block::Cuesheet(c.clone()));
            format!("ok cue={} ranges={} display={} reimport={} sizes={}", cue_literal(&c), if ranges.is_empty() { "-".to_string() } else { ranges.join(",") }, hex(disp.as_bytes()), re, sizes)
        }
    }
}

/// tracks, index numbers and absolute index positions
fn layout(c: &Cuesheet) -> Vec<(Option<u8>, u64, Vec<(u8, u64)>)> {
    c.tracks().map(|t| (t.number, t.offset, t.index_points.iter().map(|i| (i.number, i.offset.wrapping_add(t.offset))).collect())).collect()
}

/// every accessor on a parsed block list (C12)
pub fn accessors(f: &Fields) -> String {
    let data = unhex(get(f, "bytes"));
    match BlockList::read(Cursor::new(data)) {
        Err(e) => format!("err {}", errclass(&e)),
        Ok(bl) => {
            let mut out = Vec::new();
            out.push(format!("dur={}", bl.duration().map(|d| format!("{}.{:09}", d.as_secs(), d.subsec_nanos())).unwrap_or("none".to_string())));
            out.push(format!("declen={}", bl.decoded_len().map(|d| d.to_string()).unwrap_or("none".to_string())));
            out.push(format!("mask={}", u32::from(bl.channel_mask())));
            out.push(format!("maskch={}", bl.channel_mask().channels().count()));
            let si = bl.streaminfo().clone();
            out.push(format!("sidur={}", si.duration().map(|d| format!("{}.{:09}", d.as_secs(), d.subsec_nanos())).unwrap_or("none".to_string())));
            out.push(format!("sideclen={}", si.decoded_len().map(|d| d.to_string()).unwrap_or("none".to_string())));
            out.push(format!("simask={}", u32::from(si.channel_mask())));
            let mut cues = Vec::new();
            for c in bl.get_all::<Cuesheet>() {
                let ranges: Vec<String> = c.track_sample_ranges().map(|r| format!("{}-{}", r.start, r.end)).collect();
                let branges: Vec<String> = c.track_byte_ranges(bl.channel_count(), bl.bits_per_sample()).map(|r| format!("{}-{}", r.start, r.end)).collect();
                let disp = format!("{}", c.display("f"));
                let ntr = c.tracks().count();
                cues.push(format!("{}|{}|{}|{}|{}|{}", c.track_count(), ntr, if ranges.is_empty() { "-".to_string() } else { ranges.join(",") }, if branges.is_empty() { "-".to_string() } else { branges.join(",") }, hex(disp.as_bytes()), c.catalog_number()));
            }
            out.push(format!("cues={}", if cues.is_empty() { "-".to_string() } else { cues.join("~") }));
            if let Some(v) = bl.get::<VorbisComment>() {
                let n = v.fields.len();
                let g = v.get("TITLE").map(|s| s.len()).unwrap_or(0);
                let a = v.all("ARTIST").count();
                out.push(format!("vc={}/{}/{}", n, g, a));
            }
            format!("ok {}", out.join(" "))
        }
    }
}

/// picture sniffing (C12)
pub fn picture(f: &Fields) -> String {
    let data = unhex(get(f, "data"));
    match Picture::new(PictureType::FrontCover, "d", data) {
        Err(e) => {
            use flac_codec::metadata::InvalidPicture::*;
            let c = match e {
                Io(_) => "Io",
                Unsupported => "Unsupported",
                Png(_) => "Png",
                Jpeg(_) => "Jpeg",
                Gif(_) => "Gif",
                _ => "Other",
            };
            format!("err {}", c)
        }
        Ok(p) => format!("ok mime={} w={} h={} depth={} colors={}", p.media_type, p.width, p.height, p.color_depth, p.colors_used.map(|c| c.get()).unwrap_or(0)),
    }
}

// ------------------------------------------------------------------------------------------------
// update_file (C10, C13)
// ------------------------------------------------------------------------------------------------
fn big(b: &[u8]) -> String {
    if b.len() <= 6000 {
        hxs(b)
    } else {
        // FNV-1a 64 over the bytes, with the length
        let mut h: u64 = 0xcbf29ce484222325;
        for x in b {
            h ^= *x as u64;
            h = h.wrapping_mul(0x100000001b3);
        }
        format!("#{}:{:016x}", b.len(), h)
    }
}

fn apply_script(bl: &mut BlockList, script: &str) -> Result<(), flac_codec::Error> {
    for op in script.split(',').filter(|s| !s.is_empty()) {
        let p: Vec<&str> = op.split(':').collect();
        match p[0] {
            "vset" => {
                let fields = if p.len() < 2 || p[1] == "-" { vec![] } else { p[1].split('+').map(|f| String::from_utf8(unhex(f)).unwrap()).collect() };
                bl.insert(VorbisComment { vendor_string: "v".to_string(), fields });
            }
            "vrm" => bl.remove::<VorbisComment>(),
            "app" => {
                bl.remove::<Application>();
                bl.insert(Application { id: u32::from_str_radix(p[1], 16).unwrap(), data: vec![0x5A; p[2].parse().unwrap()] });
            }
            "apprm" => bl.remove::<Application>(),
            "pic" => {
                bl.insert(Picture {
                    picture_type: picture_type(p[1].parse().unwrap()).unwrap(),
                    media_type: "image/png".to_string(),
                    description: String::new(),
                    width: 1,
                    height: 1,
                    color_depth: 24,
                    colors_used: None,
                    data: vec![0x77; p[2].parse().unwrap()],
                });
            }
            "picrm" => bl.remove::<Picture>(),
            "padset" => {
                if let Some(pd) = bl.get_mut::<Padding>() {
                    pd.size = p[1].parse::<u32>().unwrap().try_into().unwrap();
                }
            }
            "padadd" => {
                bl.insert(Padding { size: p[1].parse::<u32>().unwrap().try_into().unwrap() });
            }
            "padrm" => bl.remove::<Padding>(),
            "rate" => bl.streaminfo_mut().sample_rate = p[1].parse().unwrap(),
            "fail" => return Err(flac_codec::Error::InvalidSampleRate),
            _ => panic!("harness: bad edit op {}", op),
        }
    }
    Ok(())
}

struct UpdateRun {
    steps: Vec<String>,
    lens: Vec<usize>,
    file: Vec<u8>,
    tripped: bool,
    calls: usize,
}

fn update_run(f: &Fields, inject: bool) -> UpdateRun {
    let mut file = unhex(get(f, "file"));
    let scripts: Vec<&str> = get(f, "edits").split('|').collect();
    let failat: Option<usize> = if inject { opt_num(f, "failat") } else { None };
    let fstep: usize = num(f, "fstep", 0);
    let kind = fault_kind(get(f, "fkind"));
    let mut run = UpdateRun { steps: vec![], lens: vec![file.len()], file: vec![], tripped: false, calls: 0 };
    for (i, sc) in scripts.iter().enumerate() {
        let orig = Shared::from_data(file.clone());
        let reb = Shared::from_data(Vec::new());
        orig.0.borrow_mut().rfrag = num(f, "rfrag", 0);
        if let Some(at) = failat {
            if i == fstep {
                let only = get(f, "fonly");
                if get(f, "ftarget") == "rebuilt" { reb.fail(at, kind, only) } else { orig.fail(at, kind, only) }
            }
        }
        if get(f, "path") == "1" {
            // the path API itself (`metadata::update`): source and destination are the same file on disk
            let p = std::env::temp_dir().join(format!("flacverif_update_{}_{}.flac", std::process::id(), i));
            let r: Result<bool, flac_codec::Error> = std::fs::write(&p, &file)
                .map_err(flac_codec::Error::Io)
                .and_then(|()| flac_codec::metadata::update(&p, |bl| apply_script(bl, sc)));
            let after = std::fs::read(&p).unwrap_or_default();
            let _ = std::fs::remove_file(&p);
            match r {
                Ok(false) => run.steps.push("inplace".to_string()),
                Ok(true) => run.steps.push("rebuilt".to_string()),
                Err(e) => run.steps.push(format!("ERR:{}", errclass(&e))),
            }
            file = after;
            run.lens.push(file.len());
            continue;
        }
        let reb2 = reb.clone();
        let mut opened = false;
        let r = flac_codec::metadata::update_file(
            orig.clone(),
            || {
                opened = true;
                Ok(reb2.clone())
            },
            |bl| apply_script(bl, sc),
        );
        run.tripped |= orig.0.borrow().tripped || reb.0.borrow().tripped;
        run.calls += orig.0.borrow().ncalls + reb.0.borrow().ncalls;
        match r {
            Ok(false) => {
                run.steps.push("inplace".to_string());
                file = orig.data();
            }
            Ok(true) => {
                run.steps.push("rebuilt".to_string());
                file = reb.data();
            }
            Err(e) => {
                run.steps.push(format!("ERR:{}", errclass(&e)));
                // what is on "disk" after a failure: the rebuilt file if it was opened, else the original
                file = if opened { reb.data() } else { orig.data() };
            }
        }
        run.lens.push(file.len());
    }
    run.file = file;
    run
}

/// `update file=HEX edits=s1|s2|…  [path=1] [rfrag=K: the original delivers at most K bytes per read] [failat=N fkind=perm|once|intr|short fonly=wfsr fstep=K ftarget=orig|rebuilt]`
pub fn update(f: &Fields) -> String {
    let run = update_run(f, true);
    let mut out = format!(
        "ok steps={} lens={} final={} tripped={} calls={}",
        run.steps.join(","),
        join(run.lens.iter()),
        big(&run.file),
        run.tripped as u8,
        run.calls
    );
    if let Some(nfr) = opt_num::<usize>(f, "frames") {
        // the audio behind the metadata, compared here because long files are only reported as a hash
        let orig = unhex(get(f, "file"));
        let same = nfr <= orig.len() && nfr <= run.file.len() && orig[orig.len() - nfr..] == run.file[run.file.len() - nfr..];
        out.push_str(&format!(" tailsame={}", same as u8));
    }
    if f.contains_key("failat") {
        // the same history without the fault: what a complete result looks like
        let clean = update_run(f, false);
        out.push_str(&format!(" complete={} cleansteps={}", (clean.file == run.file) as u8, clean.steps.join(",")));
    }
    out
}
