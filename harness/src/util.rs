use crate::Fields;
use flac_codec::Error;
use flac_codec::encode::{Options, Window};

pub fn fields(line: &str) -> (String, Fields) {
    let mut it = line.split_whitespace();
    let op = it.next().unwrap_or("").to_string();
    let mut m = Fields::new();
    for kv in it {
        match kv.split_once('=') {
            Some((k, v)) => {
                m.insert(k.to_string(), v.to_string());
            }
            None => {
                m.insert(kv.to_string(), String::new());
            }
        }
    }
    (op, m)
}

pub fn hex(b: &[u8]) -> String {
    let mut s = String::with_capacity(b.len() * 2);
    for x in b {
        s.push_str(&format!("{:02x}", x));
    }
    s
}

pub fn unhex(s: &str) -> Vec<u8> {
    let b = s.as_bytes();
    let mut v = Vec::with_capacity(b.len() / 2);
    let d = |c: u8| -> u8 {
        match c {
            b'0'..=b'9' => c - b'0',
            b'a'..=b'f' => c - b'a' + 10,
            b'A'..=b'F' => c - b'A' + 10,
            _ => panic!("harness: bad hex"),
        }
    };
    for i in (0..b.len() / 2 * 2).step_by(2) {
        v.push(d(b[i]) * 16 + d(b[i + 1]));
    }
    v
}

/// comma-separated integers; `v*N` stands for `N` copies of `v`
pub fn ints<T: std::str::FromStr + Clone>(s: &str) -> Vec<T> {
    if s.is_empty() || s == "-" {
        return vec![];
    }
    let one = |x: &str| x.parse::<T>().unwrap_or_else(|_| panic!("harness: bad int {:?}", x));
    let mut out = Vec::new();
    for x in s.split(',') {
        match x.split_once('*') {
            Some((v, n)) => out.extend(std::iter::repeat(one(v)).take(n.parse::<usize>().unwrap_or_else(|_| panic!("harness: bad count {:?}", x)))),
            None => out.push(one(x)),
        }
    }
    out
}

pub fn join<T: std::fmt::Display>(v: impl IntoIterator<Item = T>) -> String {
    let mut s = String::new();
    for (i, x) in v.into_iter().enumerate() {
        if i > 0 {
            s.push(',');
        }
        s.push_str(&x.to_string());
    }
    if s.is_empty() { "-".to_string() } else { s }
}

pub fn get<'a>(f: &'a Fields, k: &str) -> &'a str {
    f.get(k).map(|s| s.as_str()).unwrap_or("")
}

pub fn num<T: std::str::FromStr>(f: &Fields, k: &str, default: T) -> T {
    match f.get(k) {
        Some(s) if !s.is_empty() => s.parse::<T>().unwrap_or_else(|_| panic!("harness: bad number {}={:?}", k, s)),
        _ => default,
    }
}

pub fn opt_num<T: std::str::FromStr>(f: &Fields, k: &str) -> Option<T> {
    match f.get(k) {
        Some(s) if !s.is_empty() && s != "none" => {
            Some(s.parse::<T>().unwrap_or_else(|_| panic!("harness: bad number {}={:?}", k, s)))
        }
        _ => None,
    }
}

/// canonical error class: the variant name; I/O errors carry their `ErrorKind`
pub fn errclass(e: &Error) -> String {
    match e {
        Error::Io(io) => ioclass(io),
        Error::Utf8(_) => "Utf8".to_string(),
        Error::Cuesheet(c) => format!("Cuesheet({:?})", c).replace(' ', ""),
        other => {
            let d = format!("{:?}", other);
            d.split(|c: char| !c.is_alphanumeric()).next().unwrap_or("").to_string()
        }
    }
}

pub fn ioclass(io: &std::io::Error) -> String {
    // crate errors that were converted into io::Error keep their Display text; map them back
    if io.kind() == std::io::ErrorKind::InvalidData {
        if let Some(inner) = io.get_ref() {
            return format!("Io(InvalidData:{})", inner.to_string().replace(' ', "_"));
        }
    }
    format!("Io({:?})", io.kind())
}

/// encoder options from case fields (every option the properties quantify over)
pub fn options(f: &Fields) -> Result<Options, String> {
    let mut o = Options::default();
    if let Some(bs) = opt_num::<u16>(f, "bs") {
        o = o.block_size(bs).map_err(|e| format!("OptionsError({:?})", e))?;
    }
    if let Some(l) = f.get("lpc") {
        let v = if l == "none" { None } else { Some(l.parse::<u8>().unwrap()) };
        o = o.max_lpc_order(v).map_err(|e| format!("OptionsError({:?})", e))?;
    }
    if let Some(po) = opt_num::<u32>(f, "po") {
        o = o.max_partition_order(po).map_err(|e| format!("OptionsError({:?})", e))?;
    }
    if let Some(ms) = opt_num::<u8>(f, "ms") {
        o = o.mid_side(ms != 0);
    }
    if let Some(exh) = opt_num::<u8>(f, "exh") {
        o = o.fast_channel_correlation(exh == 0);
    }
    if let Some(w) = f.get("win") {
        o = o.window(match w.as_str() {
            "rect" => Window::Rectangle,
            "hann" => Window::Hann,
            t if t.starts_with("tukey:") => Window::Tukey(t[6..].parse::<f32>().unwrap()),
            _ => panic!("harness: bad window"),
        });
    }
    if let Some(s) = f.get("seek") {
        o = match s.as_str() {
            "off" => o.no_seektable(),
            t if t.starts_with("frames:") => o.seektable_frames(t[7..].parse().unwrap()),
            t if t.starts_with("secs:") => o.seektable_seconds(t[5..].parse().unwrap()),
            "default" => o,
            _ => panic!("harness: bad seek policy"),
        };
    }
    if let Some(p) = opt_num::<u32>(f, "pad") {
        o = if p == 0 { o.no_padding() } else { o.padding(p).map_err(|e| format!("OptionsError({:?})", e))? };
    }
    Ok(o)
}

/// a reader that hands out its data in caller-chosen fragments (`split` = absolute offsets)
pub struct SplitReader {
    pub data: Vec<u8>,
    pub pos: usize,
    pub splits: Vec<usize>,
    pub max: usize,
}

impl SplitReader {
    pub fn new(data: Vec<u8>, splits: Vec<usize>, max: usize) -> Self {
        Self { data, pos: 0, splits, max: if max == 0 { usize::MAX } else { max } }
    }
    fn limit(&self) -> usize {
        let mut end = self.data.len();
        for s in &self.splits {
            if *s > self.pos && *s < end {
                end = *s;
            }
        }
        end.min(self.pos.saturating_add(self.max))
    }
}

impl std::io::Read for SplitReader {
    fn read(&mut self, buf: &mut [u8]) -> std::io::Result<usize> {
        if self.pos >= self.data.len() {
            return Ok(0);
        }
        let end = self.limit();
        let n = buf.len().min(end - self.pos);
        buf[..n].copy_from_slice(&self.data[self.pos..self.pos + n]);
        self.pos += n;
        Ok(n)
    }
}

impl std::io::BufRead for SplitReader {
    fn fill_buf(&mut self) -> std::io::Result<&[u8]> {
        if self.pos >= self.data.len() {
            return Ok(&[]);
        }
        let end = self.limit();
        Ok(&self.data[self.pos..end])
    }
    fn consume(&mut self, amt: usize) {
        self.pos += amt;
    }
}

impl std::io::Seek for SplitReader {
    fn seek(&mut self, pos: std::io::SeekFrom) -> std::io::Result<u64> {
        let new = match pos {
            std::io::SeekFrom::Start(p) => p as i128,
            std::io::SeekFrom::Current(d) => self.pos as i128 + d as i128,
            std::io::SeekFrom::End(d) => self.data.len() as i128 + d as i128,
        };
        if new < 0 {
            return Err(std::io::Error::new(std::io::ErrorKind::InvalidInput, "seek before start"));
        }
        self.pos = (new as usize).min(usize::MAX);
        if self.pos > self.data.len() {
            // reads past the end simply return 0 bytes
            self.pos = self.pos.min(self.data.len() + (1 << 40));
        }
        Ok(new as u64)
    }
}

// ---------------------------------------------------------------------------------------------
// an instrumented in-memory stream: records every call, can fail the n-th call, can be observed
// while a writer owns it (shared handle)
// ---------------------------------------------------------------------------------------------
use std::cell::RefCell;
use std::rc::Rc;

#[derive(Clone, Copy, Debug, PartialEq)]
pub enum FaultKind {
    None,
    /// this call and every later one fails
    Permanent,
    /// this call fails once with `Interrupted`
    Interrupted,
    /// this call fails once with `Other`
    Once,
    /// this write accepts only k bytes (k >= 1)
    Short(usize),
    /// this call and every later one transfers at most k bytes (k >= 1)
    ShortFrom(usize),
}

/// `perm|once|intr|short|short:k|shortfrom:k`
pub fn fault_kind(s: &str) -> FaultKind {
    match s {
        "intr" => FaultKind::Interrupted,
        "once" => FaultKind::Once,
        "short" => FaultKind::Short(1),
        k if k.starts_with("short:") => FaultKind::Short(k[6..].parse().unwrap()),
        k if k.starts_with("shortfrom:") => FaultKind::ShortFrom(k[10..].parse().unwrap()),
        _ => FaultKind::Permanent,
    }
}

#[derive(Default)]
pub struct IoState {
    pub data: Vec<u8>,
    pub pos: usize,
    pub ncalls: usize,
    /// (kind, argument, data length afterwards); kind: w write, f flush, s seek, r read
    pub log: Vec<(char, usize, usize)>,
    pub fail_at: Option<usize>,
    pub kind: Option<FaultKind>,
    pub tripped: bool,
    /// which call kinds count (empty = all)
    pub only: Vec<char>,
    /// every read delivers at most this many bytes (0 = no limit): a source that fragments its reads, not a fault
    pub rfrag: usize,
}

#[derive(Clone)]
pub struct Shared(pub Rc<RefCell<IoState>>);

impl Shared {
    pub fn new(start: usize) -> Self {
        let st = IoState { data: vec![0xAA; start], pos: start, ..Default::default() };
        Shared(Rc::new(RefCell::new(st)))
    }
    pub fn from_data(data: Vec<u8>) -> Self {
        let st = IoState { data, pos: 0, ..Default::default() };
        Shared(Rc::new(RefCell::new(st)))
    }
    pub fn fail(&self, at: usize, kind: FaultKind, only: &str) {
        let mut s = self.0.borrow_mut();
        s.fail_at = Some(at);
        s.kind = Some(kind);
        s.only = only.chars().collect();
    }
    pub fn data(&self) -> Vec<u8> {
        self.0.borrow().data.clone()
    }
    /// returns Some(error) if this call must fail, or Some(short) handled by caller
    fn fault(&self, kind: char) -> Option<FaultKind> {
        let mut s = self.0.borrow_mut();
        if !s.only.is_empty() && !s.only.contains(&kind) {
            return None;
        }
        let idx = s.ncalls;
        s.ncalls += 1;
        match (s.fail_at, s.kind) {
            (Some(at), Some(FaultKind::Permanent)) if idx >= at => {
                s.tripped = true;
                Some(FaultKind::Permanent)
            }
            (Some(at), Some(FaultKind::ShortFrom(k))) => {
                if idx >= at {
                    s.tripped = true;
                    Some(FaultKind::Short(k))
                } else {
                    None
                }
            }
            (Some(at), Some(k)) if idx == at && k != FaultKind::Permanent => {
                s.tripped = true;
                Some(k)
            }
            _ => None,
        }
    }
}

fn io_err(k: FaultKind) -> std::io::Error {
    match k {
        FaultKind::Interrupted => std::io::Error::new(std::io::ErrorKind::Interrupted, "injected interrupt"),
        _ => std::io::Error::other("injected fault"),
    }
}

impl std::io::Write for Shared {
    fn write(&mut self, buf: &[u8]) -> std::io::Result<usize> {
        let mut n = buf.len();
        match self.fault('w') {
            Some(FaultKind::Short(k)) => n = n.min(k.max(1)),
            Some(k) => {
                self.0.borrow_mut().log.push(('W', buf.len(), 0));
                return Err(io_err(k));
            }
            None => {}
        }
        let mut s = self.0.borrow_mut();
        let pos = s.pos;
        if s.data.len() < pos + n {
            s.data.resize(pos + n, 0);
        }
        s.data[pos..pos + n].copy_from_slice(&buf[..n]);
        s.pos += n;
        let l = s.data.len();
        s.log.push(('w', n, l));
        Ok(n)
    }
    fn flush(&mut self) -> std::io::Result<()> {
        if let Some(k) = self.fault('f') {
            self.0.borrow_mut().log.push(('F', 0, 0));
            return Err(io_err(k));
        }
        let mut s = self.0.borrow_mut();
        let l = s.data.len();
        s.log.push(('f', 0, l));
        Ok(())
    }
}

impl std::io::Read for Shared {
    fn read(&mut self, buf: &mut [u8]) -> std::io::Result<usize> {
        let mut want = buf.len();
        match self.fault('r') {
            Some(FaultKind::Short(k)) => want = want.min(k.max(1)),
            Some(k) => {
                self.0.borrow_mut().log.push(('R', buf.len(), 0));
                return Err(io_err(k));
            }
            None => {}
        }
        let mut s = self.0.borrow_mut();
        if s.rfrag > 0 {
            want = want.min(s.rfrag);
        }
        let pos = s.pos.min(s.data.len());
        let n = want.min(s.data.len() - pos);
        buf[..n].copy_from_slice(&s.data[pos..pos + n]);
        s.pos = pos + n;
        let l = s.data.len();
        s.log.push(('r', n, l));
        Ok(n)
    }
}

impl std::io::Seek for Shared {
    fn seek(&mut self, pos: std::io::SeekFrom) -> std::io::Result<u64> {
        if let Some(k) = self.fault('s') {
            self.0.borrow_mut().log.push(('S', 0, 0));
            return Err(io_err(k));
        }
        let mut s = self.0.borrow_mut();
        let new = match pos {
            std::io::SeekFrom::Start(p) => p as i128,
            std::io::SeekFrom::Current(d) => s.pos as i128 + d as i128,
            std::io::SeekFrom::End(d) => s.data.len() as i128 + d as i128,
        };
        if new < 0 {
            return Err(std::io::Error::new(std::io::ErrorKind::InvalidInput, "seek before start"));
        }
        s.pos = new as usize;
        let l = s.data.len();
        s.log.push(('s', new as usize, l));
        Ok(new as u64)
    }
}
